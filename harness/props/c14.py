"""C14 — surface and stacking-fault cells cut the right plane, between atomic layers.

Tie: correspondence.  The hand-written Lean model (lean/Atomman/C14.lean) is run by the compiled driver on
exactly the rational inputs the real code saw:
  * free_surface_basis: exhaustive planes |h|,|k|,|l| <= N in cells of every crystal family x 3 cut vectors x
    centred settings (uvws compared exactly as integers where the model certifies that no float tie decides
    the outcome; otherwise the relational model `validBasis` must accept the coded answer; refusals coincide)
  * FreeSurface: uvws, cut-vector refusals, layer shifts, surface() multiplier / pbc / vacuum box
  * StackingFault.fault: above-fault mask (exact), positions
Search: the clauses of the property evaluated on the real code with an independent oracle.
"""
from __future__ import annotations

import itertools
import math
import os
import random
from fractions import Fraction as F

from .. import common as cm

PROP = 'C14'
THEOREMS = []
PARTIAL = {}
RULE = ''
ASSUMPTIONS = []
TRUSTED = []

CUTS = ('a', 'b', 'c')
SETTINGS = ('p', 'f', 'i', 'a', 'b', 'c', 't1', 't2')
P2C = {  # rows of vector_primitive_to_conventional (as Fractions); checked against the source in correspond()
    'p': [[1, 0, 0], [0, 1, 0], [0, 0, 1]],
    'a': [[1, 0, 0], [0, F(1, 2), F(1, 2)], [0, F(-1, 2), F(1, 2)]],
    'b': [[F(1, 2), 0, F(1, 2)], [0, 1, 0], [F(-1, 2), 0, F(1, 2)]],
    'c': [[F(1, 2), F(1, 2), 0], [F(-1, 2), F(1, 2), 0], [0, 0, 1]],
    'i': [[F(1, 2), F(1, 2), F(1, 2)], [F(-1, 2), F(1, 2), F(-1, 2)], [F(-1, 2), F(-1, 2), F(1, 2)]],
    'f': [[F(1, 2), F(1, 2), 0], [0, F(1, 2), F(1, 2)], [F(1, 2), 0, F(1, 2)]],
    't1': [[F(2, 3), F(1, 3), F(1, 3)], [F(-1, 3), F(1, 3), F(1, 3)], [F(-1, 3), F(-2, 3), F(1, 3)]],
    't2': [[F(-2, 3), F(-1, 3), F(1, 3)], [F(1, 3), F(-1, 3), F(1, 3)], [F(1, 3), F(2, 3), F(1, 3)]],
}


# ----------------------------------------------------------------------------------------
# small exact helpers
# ----------------------------------------------------------------------------------------
def _matmul(A, B):
    return [[sum(A[i][k] * B[k][j] for k in range(3)) for j in range(3)] for i in range(3)]


def _det(m):
    return (m[0][0] * (m[1][1] * m[2][2] - m[1][2] * m[2][1])
            - m[0][1] * (m[1][0] * m[2][2] - m[1][2] * m[2][0])
            + m[0][2] * (m[1][0] * m[2][1] - m[1][1] * m[2][0]))


def _cross(a, b):
    return [a[1] * b[2] - a[2] * b[1], a[2] * b[0] - a[0] * b[2], a[0] * b[1] - a[1] * b[0]]


def _dot(a, b):
    return sum(x * y for x, y in zip(a, b))


def _inv(m):
    d = _det(m)
    c = [_cross(m[1], m[2]), _cross(m[2], m[0]), _cross(m[0], m[1])]
    return [[c[j][i] / d for j in range(3)] for i in range(3)]


def _is_dyadic(x: F, bits=12):
    return (x.denominator & (x.denominator - 1)) == 0 and x.denominator <= (1 << bits)


def default_maxindex(hkl, setting):
    """default `maxindex` of free_surface_basis (independent re-computation, integers only)."""
    h, k, l = hkl
    nz = [x for x in hkl if x != 0]
    m = 1
    for x in nz:
        m = m * abs(x) // math.gcd(m, abs(x))
    if h and k and l:
        a, b = [-m // h, m // k, 0], [-m // h, 0, m // l]
    elif h and k:
        a, b = [-m // h, m // k, 0], [0, 0, 1]
    elif h and l:
        a, b = [m // h, 0, -m // l], [0, 1, 0]
    elif h:
        a, b = [0, 1, 0], [0, 0, 1]
    elif k and l:
        a, b = [0, -m // k, m // l], [1, 0, 0]
    elif k:
        a, b = [0, 0, 1], [1, 0, 0]
    elif l:
        a, b = [1, 0, 0], [0, 1, 0]
    else:
        return 0
    if setting not in (None, 'p'):
        L = _inv([[F(x) for x in r] for r in P2C[setting]])
        a = [sum(a[i] * L[i][j] for i in range(3)) for j in range(3)]
        b = [sum(b[i] * L[i][j] for i in range(3)) for j in range(3)]
    return int(max(max(abs(x) for x in a), max(abs(x) for x in b), max(abs(x) for x in hkl)))


# ----------------------------------------------------------------------------------------
# cells
# ----------------------------------------------------------------------------------------
def exact_cells(rng):
    """conventional cells of every crystal family whose Cartesian components are small dyadic numbers
    (all dot/cross products of the routine are exact in double precision)."""
    d = lambda lo, hi: cm.dyadic(rng, lo, hi, 2)
    out = []
    a = rng.choice([1.0, 2.0, 4.0, 3.5, 0.5])
    out.append(('cubic', [[a, 0, 0], [0, a, 0], [0, 0, a]]))
    a, c = rng.choice([(2.0, 3.0), (3.0, 2.0), (2.5, 4.0), (1.0, 1.75), (4.0, 6.5)])
    out.append(('tetragonal', [[a, 0, 0], [0, a, 0], [0, 0, c]]))
    a, b, c = rng.choice([(2.0, 3.0, 5.0), (3.0, 2.5, 4.0), (1.0, 1.5, 2.75), (4.0, 3.0, 2.0)])
    out.append(('orthorhombic', [[a, 0, 0], [0, b, 0], [0, 0, c]]))
    # hexagonal lattice in a rational orientation: a1 = al(1,-1,0), a2 = al(0,1,-1), c = ga(1,1,1)
    al, ga = rng.choice([(1.0, 1.0), (2.0, 1.5), (1.5, 2.0), (3.0, 1.25), (1.0, 0.75)])
    out.append(('hexagonal', [[al, -al, 0], [0, al, -al], [ga, ga, ga]]))
    al = rng.choice([0.5, 1.0, 1.5])
    rh = rng.choice([[[2, 1, 1], [1, 2, 1], [1, 1, 2]], [[0, 1, 1], [1, 0, 1], [1, 1, 0]],
                     [[3, 1, 1], [1, 3, 1], [1, 1, 3]], [[1, 2, 2], [2, 1, 2], [2, 2, 1]]])
    m = [[al * x for x in r] for r in rh]
    if _det(m) < 0:
        m = [m[1], m[0], m[2]]
    out.append(('rhombohedral', m))
    a, b, cz = d(1, 4) or 1.0, d(1, 4) or 1.0, d(1, 5) or 2.0
    cx = rng.choice([-1.5, -0.75, -0.5, 0.5, 1.25])
    out.append(('monoclinic', [[abs(a), 0, 0], [0, abs(b), 0], [cx, 0, abs(cz)]]))
    lx, ly, lz = [abs(d(1, 5)) or 1.0 for _ in range(3)]
    xy, xz, yz = d(-2, 2), d(-2, 2), d(-2, 2)
    if xy == 0 and xz == 0 and yz == 0:
        xy = 0.75
    out.append(('triclinic', [[lx, 0, 0], [xy, ly, 0], [xz, yz, lz]]))
    return out


def float_cells(rng):
    """cells from the family constructors with generic (non-dyadic) parameters."""
    import atomman as am
    u = rng.uniform
    return [
        ('cubic', am.Box.cubic(u(2.5, 5.5))),
        ('hexagonal', am.Box.hexagonal(u(2.5, 3.5), u(4.0, 6.0))),
        ('tetragonal', am.Box.tetragonal(u(2.5, 4.0), u(4.5, 6.5))),
        ('rhombohedral', am.Box.trigonal(u(2.5, 4.5), u(50.0, 100.0))),
        ('orthorhombic', am.Box.orthorhombic(u(2.5, 3.5), u(3.7, 4.6), u(4.8, 6.0))),
        ('monoclinic', am.Box.monoclinic(u(2.5, 3.5), u(3.7, 4.6), u(4.8, 6.0), u(95.0, 125.0))),
        ('triclinic', am.Box.triclinic(u(2.5, 3.5), u(3.7, 4.6), u(4.8, 6.0), u(70.0, 85.0), u(95.0, 110.0),
                                       u(65.0, 115.0))),
    ]


def primitive_of(conv, setting):
    """primitive cell vectors = P2C[setting] . conv (exact), or None when not exactly representable."""
    P = [[F(x) for x in r] for r in P2C[setting]]
    A = [[F(x) for x in r] for r in conv]
    prim = _matmul(P, A)
    if not all(_is_dyadic(x) for r in prim for x in r):
        return None
    return [[float(x) for x in r] for r in prim]


def planes(N):
    return [(h, k, l) for h in range(-N, N + 1) for k in range(-N, N + 1) for l in range(-N, N + 1)
            if (h, k, l) != (0, 0, 0)]


# ----------------------------------------------------------------------------------------
# implementation calls (run in a fork pool: the pure-python search loops dominate the cost)
# ----------------------------------------------------------------------------------------
def _err_class(e):
    if isinstance(e, AssertionError):
        return 'assert'
    if isinstance(e, ValueError):
        return 'value'
    return type(e).__name__


def _impl_fsb(job):
    vects, hkl, cut, n, setting, rh = job
    import numpy as np
    import atomman as am
    from atomman.defect import free_surface_basis
    try:
        box = am.Box(vects=vects)
        kw = {}
        if rh is not None:
            kw['return_hexagonal'] = rh
        uv, pn = free_surface_basis(list(hkl), box=box, cutboxvector=cut, maxindex=n,
                                    conventional_setting=setting, return_planenormal=True, **kw)
        return ('ok', np.asarray(uv, dtype=float).tolist(), np.asarray(pn, dtype=float).tolist())
    except Exception as e:  # noqa
        return ('err', _err_class(e), str(e)[:120])


_POOL = None


def _pool():
    global _POOL
    if _POOL is None:
        import multiprocessing as mp
        n = max(1, min(8, (os.cpu_count() or 2) - 2))
        _POOL = mp.get_context('fork').Pool(n)
    return _POOL


def _close_pool():
    global _POOL
    if _POOL is not None:
        _POOL.terminate()
        _POOL = None


def _pmap(fn, jobs):
    jobs = list(jobs)
    if len(jobs) < 8:
        return [fn(j) for j in jobs]
    return _pool().map(fn, jobs, chunksize=max(1, len(jobs) // 64))


def _drivers(ctx, k=4):
    """extra driver processes (the model's candidate loops are sequential per process)."""
    ds = [ctx.driver]
    for _ in range(k - 1):
        ds.append(cm.Driver('drv_c14'))
    return ds


def _ask_parallel(ctx, lines):
    lines = list(lines)
    if len(lines) < 64:
        return ctx.driver.ask_many(lines)
    import threading
    ds = _drivers(ctx, 4)
    outs = [None] * len(lines)
    parts = [list(range(i, len(lines), len(ds))) for i in range(len(ds))]

    def run(d, idx):
        res = d.ask_many([lines[i] for i in idx])
        for i, r in zip(idx, res):
            outs[i] = r
    ts = [threading.Thread(target=run, args=(d, idx)) for d, idx in zip(ds, parts)]
    for t in ts:
        t.start()
    for t in ts:
        t.join()
    for d in ds[1:]:
        ctx.driver.n += d.n
        d.close()
    if any(o is None for o in outs):
        raise cm.InfraError('driver died in parallel batch')
    return outs


# ----------------------------------------------------------------------------------------
# free_surface_basis: line building and comparison
# ----------------------------------------------------------------------------------------
def fsb_line(vects, hkl, cut, n, setting, rh):
    import numpy as np
    return ('fsb %s %s %s %s %d %s %s' % (cut, setting or 'p', '-' if n is None else n,
                                         '-' if rh is None else int(bool(rh)), len(hkl),
                                         ' '.join(str(int(x)) for x in hkl), cm.frs(np.asarray(vects, dtype=float))))


def parse_fsb(out):
    """-> dict(kind, shown (list of Fractions), uv3 (9 ints), pn, n, flags) or {'err': cls}."""
    if out.startswith('err:'):
        return {'err': out[4:]}
    parts = [p.split() for p in out[3:].split(';')]
    return {'kind': int(parts[0][0]), 'shown': [F(t) for t in parts[0][1:]], 'uv3': [int(t) for t in parts[1]],
            'pn': [F(t) for t in parts[2]], 'n': int(parts[3][0]), 'flags': [t == '1' for t in parts[4]]}


def to_uv3(impl_uv):
    """implementation output (3x3 or 3x4 floats) -> 9 integers (3-index form), or None if not integral."""
    rows = []
    for r in impl_uv:
        if len(r) == 4:
            r = [2 * r[0] + r[1], 2 * r[1] + r[0], r[3]]
        rows.extend(r)
    ints = [int(round(x)) for x in rows]
    if any(abs(x - i) > 1e-9 for x, i in zip(rows, ints)):
        return None
    return ints


def compare_fsb(ctx, job, impl, out, exact_regime, kindname):
    """one free_surface_basis case: implementation result vs model reply.  Returns a pending `valid` line
    (with context) when the relational model has to decide, else None."""
    vects, hkl, cut, n, setting, rh = job
    info = {'op': 'fsb', 'vects': vects, 'hkl': list(hkl), 'cut': cut, 'maxindex': n, 'setting': setting,
            'return_hexagonal': rh, 'impl': impl, 'model': out}
    m = parse_fsb(out)
    if impl[0] == 'err':
        if 'err' not in m:
            ctx.disagree('fsb:refusal', f'free_surface_basis{tuple(hkl)} cut={cut} setting={setting} raised '
                         f'{impl[1]} ({impl[2]}) but the model returns {m["uv3"]}', info)
        elif m['err'] != impl[1]:
            ctx.disagree('fsb:refusal-class', f'free_surface_basis{tuple(hkl)}: implementation {impl[1]}, model {m["err"]}',
                         info)
        return None
    if 'err' in m:
        ctx.disagree('fsb:refusal', f'free_surface_basis{tuple(hkl)} cut={cut} setting={setting} maxindex={n} '
                     f'returned {impl[1]} but the model refuses ({m["err"]})', info)
        return None
    # plane normal: exact in the exact regime, 1e-9 relative otherwise
    pn_i, pn_m = impl[2], m['pn']
    scale = max(abs(float(x)) for x in pn_m) or 1.0
    if exact_regime:
        okn = all(F(x) == y for x, y in zip(pn_i, pn_m))
    else:
        okn = all(abs(x - float(y)) <= 1e-9 * scale for x, y in zip(pn_i, pn_m))
    if not okn:
        ctx.disagree('fsb:planenormal', f'planenormal for {tuple(hkl)} setting={setting}: implementation {pn_i}, '
                     f'model {[float(y) for y in pn_m]}', info)
        return None
    uv3 = to_uv3(impl[1])
    if uv3 is None:
        ctx.disagree('fsb:integer', f'free_surface_basis{tuple(hkl)} returned non-integer vectors {impl[1]}', info)
        return None
    # 4-index output: compare the printed form too
    if len(impl[1][0]) != (4 if m['kind'] == 4 else 3):
        ctx.disagree('fsb:format', f'free_surface_basis{tuple(hkl)}: {len(impl[1][0])}-index output, model {m["kind"]}', info)
        return None
    aNear, aExact, bNear, bExact, cTie = m['flags']
    if exact_regime:
        decided = not (aNear or bNear or cTie)
    else:
        decided = not (aNear or aExact or bNear or bExact or cTie)
    if decided:
        if uv3 != m['uv3']:
            ctx.disagree('fsb:uvws', f'free_surface_basis{tuple(hkl)} box={kindname} cut={cut} setting={setting} '
                         f'maxindex={n}: implementation {uv3}, model {m["uv3"]}', info)
        elif m['kind'] == 4:
            flat = [x for r in impl[1] for x in r]
            if not all(abs(x - float(y)) <= 1e-12 for x, y in zip(flat, m['shown'])):
                ctx.disagree('fsb:uvtw', f'Miller-Bravais output for {tuple(hkl)}: {flat} vs model {m["shown"]}', info)
        return None
    # float ties decide: the relational model must accept the coded answer
    import numpy as np
    line = 'valid %s %s %s %s %s %s 1 1000000000' % (
        cut, setting or 'p', '-' if n is None else n,
        ' '.join(str(int(x)) for x in (hkl if len(hkl) == 3 else (hkl[0], hkl[1], hkl[3]))),
        cm.frs(np.asarray(vects, dtype=float)), ' '.join(map(str, uv3)))
    return (line, info, uv3)


# ----------------------------------------------------------------------------------------
# correspondence part 1: free_surface_basis
# ----------------------------------------------------------------------------------------
def _capped(hkl3, setting, cap):
    d = default_maxindex(hkl3, setting)
    return None if d <= cap else cap


def _fsb_jobs(ctx):
    """(job, exact_regime, family) for the sweep."""
    import numpy as np
    rng = ctx.rng
    N = ctx.n(4, 8)
    cap = ctx.n(4, 5)
    ex = exact_cells(rng)
    fl = [(nm, b.vects.tolist()) for nm, b in float_cells(rng)]
    jobs = []
    pl = planes(N)
    if ctx.thorough:
        # thorough: every plane x every family (exact regime) x 3 cuts would be ~10^5 python searches;
        # keep all planes, rotate families per plane, all three cuts
        pass
    off = rng.randrange(1000)
    centred = []
    for st in ('f', 'i', 'a', 'b', 'c', 't1', 't2'):
        for nm, conv in ex:
            if st in ('t1', 't2') and nm != 'hexagonal':
                continue
            if st in ('f',) and nm not in ('cubic', 'orthorhombic'):
                continue
            if st in ('i',) and nm not in ('cubic', 'orthorhombic', 'tetragonal'):
                continue
            if st in ('a', 'b', 'c') and nm not in ('orthorhombic', 'monoclinic', 'triclinic'):
                continue
            conv2 = [[x * (3 if st in ('t1', 't2') else 2) for x in r] for r in conv]
            prim = primitive_of(conv2, st)
            if prim is not None and _det(prim) > 0:
                centred.append((st, nm, prim))
    for i, hkl in enumerate(pl):
        r = (i + off)
        # (1) exact regime, setting p (alternating None / 'p'); thorough: all three cuts
        nm, vects = ex[r % len(ex)]
        st = None if r % 2 else 'p'
        for cut in (CUTS if ctx.thorough else (CUTS[r % 3],)):
            jobs.append(((vects, hkl, cut, _capped(hkl, st, cap), st, None), True, nm))
        # (2) exact regime, centred settings
        st, nm, prim = centred[r % len(centred)]
        cut = CUTS[(r + 1) % 3]
        if ctx.thorough or r % 2 == 0:
            jobs.append(((prim, hkl, cut, _capped(hkl, st, cap), st, None), True, nm + ':' + st))
        # (3) float regime (family constructors)
        nm, vects = fl[r % len(fl)]
        cut = CUTS[(r + 2) % 3]
        if ctx.thorough or r % 2 == 1:
            jobs.append(((vects, hkl, cut, _capped(hkl, None, cap), None, None), False, nm + ':float'))
    # (4) Miller-Bravais input/output on hexagonal cells (exact orientation and the standard float one)
    hexE = [v for nm, v in ex if nm == 'hexagonal'][0]
    hexF = [v for nm, v in fl if nm == 'hexagonal'][0]
    for i, (h, k, l) in enumerate(planes(ctx.n(3, 5))):
        hkil = (h, k, -(h + k), l)
        cut = CUTS[(i + off) % 3]
        rh = [None, None, False, True][(i + off) % 4]
        jobs.append(((hexE, hkil, cut, _capped((h, k, l), None, cap), None, rh), True, 'hexagonal:hkil'))
        if i % 3 == 0:
            jobs.append(((hexF, hkil, cut, _capped((h, k, l), None, cap), None, rh), False, 'hexagonal:hkil:float'))
        if i % 5 == 0:
            jobs.append(((hexE, (h, k, l), cut, _capped((h, k, l), None, cap), None, True), True, 'hexagonal:rh'))
    # (5) refusals and explicit small maxindex (searches that fail), uncapped default maxindex on a few planes
    cub = [v for nm, v in ex if nm == 'cubic'][0]
    tri = [v for nm, v in ex if nm == 'triclinic'][0]
    for hkl in [(0, 0, 0)]:
        jobs.append(((cub, hkl, 'c', None, None, None), True, 'refusal'))
    jobs.append(((cub, (1, 0, -1, 0), 'c', None, None, None), True, 'refusal'))        # hkil with cubic box
    jobs.append(((cub, (1, 0, 0), 'c', None, None, True), True, 'refusal'))             # return_hexagonal, cubic
    jobs.append(((hexE, (1, 1, 1, 0), 'c', None, None, None), True, 'refusal'))         # h+k+i != 0
    jobs.append(((hexE, (0, 0, 0, 0), 'c', None, None, None), True, 'refusal'))
    for hkl in [(3, 1, 0), (2, 3, 1), (4, 1, -3), (1, 2, 3), (0, 3, 2), (5, 0, 1)]:
        for n in (0, 1, 2):
            jobs.append(((tri, hkl, CUTS[n], n, None, None), True, 'small-maxindex'))
            jobs.append(((cub, hkl, CUTS[n], n, 'p', None), True, 'small-maxindex'))
    big = [(3, 4, 1), (2, -3, 4), (4, 3, 2), (-3, 2, 4), (4, 1, 3), (1, 4, -2), (3, -4, 2), (2, 3, -4)]
    rng.shuffle(big)
    for hkl in big[:ctx.n(2, 8)]:
        nm, vects = ex[rng.randrange(len(ex))]
        jobs.append(((vects, hkl, rng.choice(CUTS), None, None, None), True, nm + ':default-maxindex'))
    return jobs


def _correspond_fsb(ctx):
    jobs = _fsb_jobs(ctx)
    impls = _pmap(_impl_fsb, [j for j, _, _ in jobs])
    outs = _ask_parallel(ctx, [fsb_line(*j) for j, _, _ in jobs])
    pending = []
    nvalid = ndecided = nref = 0
    for (job, exact, nm), impl, out in zip(jobs, impls, outs):
        vects, hkl, cut, n, st, rh = job
        canon = (tuple(map(tuple, vects)), tuple(hkl), cut, n, st, rh)
        nontrivial = impl[0] == 'ok'
        ctx.stats.case('fsb:' + nm.split(':')[0] + (':exact' if exact else ':float'), canon, nontrivial=nontrivial,
                       sample={'hkl': list(hkl), 'cut': cut, 'setting': st, 'maxindex': n, 'vects': vects,
                               'impl': impl[1] if impl[0] == 'ok' else impl[1:]})
        if impl[0] == 'err':
            nref += 1
        if impl[0] == 'err' and impl[1] not in ('value', 'assert'):
            ctx.disagree('fsb:exception', f'free_surface_basis{tuple(hkl)} raised {impl[1]}: {impl[2]}',
                         {'op': 'fsb', 'vects': vects, 'hkl': list(hkl), 'cut': cut, 'maxindex': n, 'setting': st,
                          'return_hexagonal': rh})
            continue
        p = compare_fsb(ctx, job, impl, out, exact, nm)
        if p is not None:
            pending.append(p)
            nvalid += 1
        else:
            ndecided += 1
    if pending:
        vouts = _ask_parallel(ctx, [p[0] for p in pending])
        for (line, info, uv3), vo in zip(pending, vouts):
            if vo != '1':
                info = dict(info, valid_reply=vo)
                ctx.disagree('fsb:valid', f'free_surface_basis{tuple(info["hkl"])} cut={info["cut"]} '
                             f'setting={info["setting"]}: coded answer {uv3} is not a possible outcome of the '
                             f'searches ({vo})', info)
    # the driver runs the model at K := Int on the cell scaled to integers; cross-check against K := Rat
    idx = sorted(ctx.rng.sample(range(len(jobs)), min(len(jobs), ctx.n(40, 400))))
    qouts = _ask_parallel(ctx, ['fsbq' + fsb_line(*jobs[i][0])[3:] for i in idx])
    for i, q in zip(idx, qouts):
        a, b = parse_fsb(outs[i]), parse_fsb(q)
        ctx.stats.case('fsb:int-vs-rat', i, nontrivial=False)
        if a.get('err') != b.get('err') or a.get('uv3') != b.get('uv3') or a.get('pn') != b.get('pn'):
            ctx.disagree('fsb:int-vs-rat', f'model at Int and at Rat differ on {jobs[i][0][1]}: {outs[i]} / {q}',
                         {'op': 'fsbq', 'line': fsb_line(*jobs[i][0])})
    ctx.extra['fsb_cases'] = len(jobs)
    ctx.extra['fsb_compared_exactly'] = ndecided
    ctx.extra['fsb_decided_by_relational_model'] = nvalid
    ctx.extra['fsb_refusals'] = nref


def correspond(ctx):
    try:
        _correspond_tables(ctx)
        _correspond_fsb(ctx)
    finally:
        _close_pool()


def _correspond_tables(ctx):
    """centring matrices of the model vs miller.vector_conventional_to_primitive / _primitive_to_conventional."""
    import numpy as np
    from atomman.tools import miller
    for st in SETTINGS:
        c2p = miller.vector_conventional_to_primitive(np.identity(3), setting=st)
        out = ctx.driver.ask(f'c2p {st}')
        ctx.stats.case('table:c2p', st)
        got = [int(t) for t in out.split(';')[0].split()] if not out.startswith('err') else None
        if got != [int(round(x)) for x in c2p.ravel()] or not np.allclose(c2p, np.rint(c2p)):
            ctx.disagree('table:c2p', f'vector_conventional_to_primitive[{st}] = {c2p.tolist()}, model {out}',
                         {'op': 'c2p', 'setting': st})
        for v in ([1, 0, 0], [0, 1, 0], [0, 0, 1], [1, -2, 3]):
            p2c = miller.vector_primitive_to_conventional(np.array(v), setting=st)
            out = ctx.driver.ask(f'p2c {st} ' + ' '.join(map(str, v)))
            ctx.stats.case('table:p2c', (st, tuple(v)))
            if out.startswith('err') or not cm.allclose(p2c, cm.unfrs(out), 1e-12, 1e-12):
                ctx.disagree('table:p2c', f'vector_primitive_to_conventional[{st}]({v}) = {p2c.tolist()}, model {out}',
                             {'op': 'p2c', 'setting': st, 'v': v})
    for bad in ('x', 'P', ''):
        try:
            miller.vector_conventional_to_primitive(np.identity(3), setting=bad)
            impl = 'ok'
        except ValueError:
            impl = 'value'
        out = ctx.driver.ask(f'c2p {bad}') if bad else 'err:value'
        if (impl == 'value') != out.startswith('err'):
            ctx.disagree('table:c2p', f'unknown setting {bad!r}: implementation {impl}, model {out}', {'op': 'c2p'})


def search(ctx, broken):
    pass


def replay(ctx, payload):
    pass
