"""C14 — surface and stacking-fault cells cut the right plane, between atomic layers.

Tie: correspondence.  The hand-written Lean model (lean/Atomman/C14.lean) is run by the compiled driver on
exactly the rational inputs the real code saw:
  * free_surface_basis: exhaustive planes |h|,|k|,|l| <= N in cells of every crystal family x 3 cut vectors x
    centred settings (uvws compared exactly as integers where the model certifies that no float tie decides
    the outcome; otherwise the relational model `validBasis` must accept the coded answer; refusals coincide)
  * FreeSurface: uvws, cut-vector refusals, layer shifts, surface() multiplier / pbc / vacuum box
  * StackingFault.fault: above-fault mask (exact), positions
Search: the clauses of the property evaluated on the real code with an independent oracle.
"""
from __future__ import annotations

import itertools
import math
import os
import random
from fractions import Fraction as F

from .. import common as cm

PROP = 'C14'
THEOREMS = [
    # free_surface_basis: starting vectors, enumeration, the two searches
    'C14.initVectors_eq_C16', 'C14.init_cross_parallel', 'C14.mem_genVectors', 'C14.basis_value_error_iff',
    'C14.freeSurfaceBasis_eq', 'C14.search_result_satisfies_filter',
    # integer / zone law / out of plane / right-handed (all three orderings) / normal
    'C14.basis_integer', 'C14.reduceGcd_smul', 'C14.reduceGcd_coprime',
    'C14.normal_component', 'C14.inPlane_iff_zone', 'C14.basis_in_plane', 'C14.basis_in_plane_p',
    'C14.basis_out_of_plane', 'C14.basis_right_handed_cart', 'C14.basis_right_handed', 'C14.orderRows_rows',
    'C14.normal_matches_miller', 'C14.normal_is_reciprocal', 'C14.c2p_det',
    # what the searches optimise
    'C14.basis_a_shortest', 'C14.basis_c_closest', 'C14.basis_b_shortest',
    # headline statement; division-free normal clause; the relational model used on float ties is sound
    'C14.free_surface_basis_correct', 'C14.normal_cofactor', 'C14.accepted_of_run', 'C14.accepted_properties',
    'C14.inRange_iff', 'C14.validBasis_sound', 'C14.validBasis_properties', 'C14.zone_conventional', 'C14.p2c_c2p',
    # documented refusal for an incompatible cut vector (against C05's normalised cell)
    'C14.cutCompatible_iff_normalized',
    # Miller-Bravais input / output
    'C14.plane4to3_spec', 'C14.vector3to4_spec',
    # FreeSurface: termination shifts
    'C14.withReplica_spec', 'C14.shifts_perm', 'C14.shifts_sorted', 'C14.shifts_length', 'C14.shift_between_planes',
    'C14.shifts_in_cell', 'C14.roundKey_mono', 'C14.layerCoords_spec', 'C14.shift_between_planes_atoms',
    # FreeSurface.surface: same crystal, multiplier, pbc, vacuum
    'C14.surfacePos_spec', 'C14.surface_same_crystal', 'C14.cutMult_none', 'C14.cutMult_some', 'C14.surface_pbc',
    'C14.vacuum_symmetric',
    # System.wrap on one atom (shared with C05), StackingFault.fault
    'C14.wrapPos_eq_C05', 'C14.wrapPos_reconstruct', 'C14.wrapPos_inside', 'C14.wrapPos_add_lattice',
    'C14.isAbove_iff', 'C14.fault_below_fixed', 'C14.fault_above_shifted', 'C14.faultShift_cut',
    'C14.fault_box_vector_restores', 'C14.fault_lattice_vector_restores', 'C14.wrapPos_insidePeriodic',
    'C14.wrapPos_cut', 'C14.orbit_shift_perm', 'C14.fault_orbit_restores', 'C14.push_restores_minimum_r',
    'C14.isFloor_ratFloor',
]
PARTIAL = {
    'isclose_as_exact_zero': 'np.isclose(x, 0) / np.isclose(mag, b_mag) / the arccos-based angle comparisons are modelled '
                             'as exact tests (x = 0, equal squared lengths, cross-multiplied squared cosines); on inputs '
                             'where a float tie or near-tie decides the coded choice the correspondence does not '
                             'compare the vectors literally but requires the relational model `Rel.validBasis` to '
                             'accept the coded answer; `validBasis_properties` proves that every accepted answer has '
                             'the integer / zone-law / out-of-plane / right-handed clauses too (optimality only up to 1e-9)',
    'searches_succeed': 'no theorem says that the two searches find vectors (AssertionError is a documented outcome: '
                        'it does happen for an explicit small maxindex); all theorems are about successful runs, '
                        'refusals are compared by the correspondence',
    'fault_lattice_vector_restores': 'proved (a) exactly for integer combinations of the periodic cell vectors of the '
                                     'system (`fault_box_vector_restores`), (b) as a permutation for any translation that '
                                     'maps the upper half onto itself modulo the cell (`fault_lattice_vector_restores`), '
                                     '(c) as a permutation for a translation t with M t a periodic cell vector when the '
                                     'atoms are listed as orbits of t (`fault_orbit_restores`); that the list '
                                     '`surfaceAtoms` produces is such a union of orbits (a reordering of the replica '
                                     'loops) is not derived in Lean: the search oracle checks the restoration on the real '
                                     'systems for a1vect, a2vect and combinations',
    'shift_between_planes': 'stated for the layer representatives the code keeps (the first atom of each rounded '
                            'coordinate, `layerCoords_spec`): an atom whose coordinate rounds to the same value lies within '
                            '10^-numdec of its representative, which is not subtracted from the half-gap bound in the '
                            'theorem (the search oracle measures the true distances on the built systems)',
    'rotate_and_normalize': 'the rotated cell itself (System.rotate + normalize) is C04/C05 territory: here it enters as the '
                            'given cell `rbox` with its atoms; the search oracle checks on the real objects that it is a '
                            'proper rotation of uvws.vects holding det(uvws) copies of every unit-cell atom',
    'minimum_r': 'only the final algebra of the push is proved (the pushed separation has length minimum_r); the '
                 'selection of the closest pair by System.dvect is not modelled',
}
RULE = ('free_surface_basis: every plane |h|,|k|,|l| <= N (N=4 quick, 7 thorough; zeros and negatives included) against '
        'cells of all seven crystal families in two regimes — small dyadic cells on which every dot/cross product of the '
        'routine is exact in double precision (uvws compared exactly unless the model flags a tie) and family-constructor '
        'cells with generic parameters (tolerance 1e-9 on the normal; uvws exactly unless flagged) — x the three '
        'cutboxvectors x settings p/f/i/a/b/c/t1/t2 on centred primitive cells, Miller-Bravais input and output on '
        'hexagonal cells, explicit small maxindex (searches that fail), all-zero / malformed planes (refusals must '
        'coincide by class). FreeSurface/StackingFault: fcc, bcc, diamond, L1_2, B2, bct, hcp, primitive fcc/bcc with '
        'settings f/i, a two-atom orthorhombic cell x random low-index planes x cuts: refusal for an incompatible cut '
        'vector, uvws, shifts, surface() multiplier/pbc/vacuum box/positions (supersize+shift+wrap in the model), '
        'fault() mask (exact) and positions. distinct = distinct (cell, plane, cut, maxindex, setting) or system '
        'parameters; non-trivial = the call did not refuse. Search: the clauses on the real objects with an exact '
        'Fraction oracle (zone law, determinant, reciprocal direction, brute-force minimality in the exact regime) and '
        'a site census of the built systems against the unit cell.')
ASSUMPTIONS = [
    'np.isclose(x, 0.0) is x = 0, np.isclose(mag, b_mag) is equality of lengths, and the comparisons of norms / '
    'arccos angles are the exact comparisons of squared lengths / cross-multiplied squared cosines (order-equivalent '
    'for exact reals); inputs on which a float tie decides are recognised by the model and handled relationally',
    'numpy.floor followed by the integer cast is the mathematical floor (parameter fl with fl s <= s < fl s + 1; the '
    'driver uses Rat.floor, `isFloor_ratFloor`)',
    'the square root of the minimum_r push is a parameter sq with sq*sq = radicand',
    'the free_surface_basis theorems hold over every linearly ordered commutative ring, so they cover the run at Z on the '
    'cell scaled to integers (what the driver executes; cross-checked against the run at Q) as well as Q and R',
    'the cell is non-singular (det vects != 0); the statements about the side of the normal and det(uvws) > 0 assume a '
    'right-handed cell (det > 0), the Cartesian form `basis_right_handed_cart` does not',
    'Box.ishexagonal is evaluated on the Gram matrix with a relative tolerance 1e-7 (generated boxes are hexagonal to '
    '1e-12 or far from it)',
    'np.unique(round(x, numdec)) keeps the first atom of each rounded layer coordinate, ascending (model `layerCoords`; '
    'cases within 1e-3 of a rounding boundary or with layer gaps near tol are not compared)',
]
TRUSTED = ['numpy inside the implementation run', 'fractions.Fraction / numpy site census oracles in search()',
           "C16's theorems idx_cross_parallel / normal_is_reciprocal (imported, audited there), C05_Lemmas' "
           'atom_reconstruct, C04.replicaPos_eq / supersize_length (imported)']

CUTS = ('a', 'b', 'c')
SETTINGS = ('p', 'f', 'i', 'a', 'b', 'c', 't1', 't2')
P2C = {  # rows of vector_primitive_to_conventional (as Fractions); checked against the source in correspond()
    'p': [[1, 0, 0], [0, 1, 0], [0, 0, 1]],
    'a': [[1, 0, 0], [0, F(1, 2), F(1, 2)], [0, F(-1, 2), F(1, 2)]],
    'b': [[F(1, 2), 0, F(1, 2)], [0, 1, 0], [F(-1, 2), 0, F(1, 2)]],
    'c': [[F(1, 2), F(1, 2), 0], [F(-1, 2), F(1, 2), 0], [0, 0, 1]],
    'i': [[F(1, 2), F(1, 2), F(1, 2)], [F(-1, 2), F(1, 2), F(-1, 2)], [F(-1, 2), F(-1, 2), F(1, 2)]],
    'f': [[F(1, 2), F(1, 2), 0], [0, F(1, 2), F(1, 2)], [F(1, 2), 0, F(1, 2)]],
    't1': [[F(2, 3), F(1, 3), F(1, 3)], [F(-1, 3), F(1, 3), F(1, 3)], [F(-1, 3), F(-2, 3), F(1, 3)]],
    't2': [[F(-2, 3), F(-1, 3), F(1, 3)], [F(1, 3), F(-1, 3), F(1, 3)], [F(1, 3), F(2, 3), F(1, 3)]],
}


# ----------------------------------------------------------------------------------------
# small exact helpers
# ----------------------------------------------------------------------------------------
def _matmul(A, B):
    return [[sum(A[i][k] * B[k][j] for k in range(3)) for j in range(3)] for i in range(3)]


def _det(m):
    return (m[0][0] * (m[1][1] * m[2][2] - m[1][2] * m[2][1])
            - m[0][1] * (m[1][0] * m[2][2] - m[1][2] * m[2][0])
            + m[0][2] * (m[1][0] * m[2][1] - m[1][1] * m[2][0]))


def _cross(a, b):
    return [a[1] * b[2] - a[2] * b[1], a[2] * b[0] - a[0] * b[2], a[0] * b[1] - a[1] * b[0]]


def _dot(a, b):
    return sum(x * y for x, y in zip(a, b))


def _inv(m):
    d = _det(m)
    c = [_cross(m[1], m[2]), _cross(m[2], m[0]), _cross(m[0], m[1])]
    return [[c[j][i] / d for j in range(3)] for i in range(3)]


def _is_dyadic(x: F, bits=12):
    return (x.denominator & (x.denominator - 1)) == 0 and x.denominator <= (1 << bits)


def default_maxindex(hkl, setting):
    """default `maxindex` of free_surface_basis (independent re-computation, integers only)."""
    h, k, l = hkl
    nz = [x for x in hkl if x != 0]
    m = 1
    for x in nz:
        m = m * abs(x) // math.gcd(m, abs(x))
    if h and k and l:
        a, b = [-m // h, m // k, 0], [-m // h, 0, m // l]
    elif h and k:
        a, b = [-m // h, m // k, 0], [0, 0, 1]
    elif h and l:
        a, b = [m // h, 0, -m // l], [0, 1, 0]
    elif h:
        a, b = [0, 1, 0], [0, 0, 1]
    elif k and l:
        a, b = [0, -m // k, m // l], [1, 0, 0]
    elif k:
        a, b = [0, 0, 1], [1, 0, 0]
    elif l:
        a, b = [1, 0, 0], [0, 1, 0]
    else:
        return 0
    if setting not in (None, 'p'):
        L = _inv([[F(x) for x in r] for r in P2C[setting]])
        a = [sum(a[i] * L[i][j] for i in range(3)) for j in range(3)]
        b = [sum(b[i] * L[i][j] for i in range(3)) for j in range(3)]
    return int(max(max(abs(x) for x in a), max(abs(x) for x in b), max(abs(x) for x in hkl)))


# ----------------------------------------------------------------------------------------
# cells
# ----------------------------------------------------------------------------------------
def exact_cells(rng):
    """conventional cells of every crystal family whose Cartesian components are small dyadic numbers
    (all dot/cross products of the routine are exact in double precision)."""
    d = lambda lo, hi: cm.dyadic(rng, lo, hi, 2)
    out = []
    a = rng.choice([1.0, 2.0, 4.0, 3.5, 0.5])
    out.append(('cubic', [[a, 0, 0], [0, a, 0], [0, 0, a]]))
    a, c = rng.choice([(2.0, 3.0), (3.0, 2.0), (2.5, 4.0), (1.0, 1.75), (4.0, 6.5)])
    out.append(('tetragonal', [[a, 0, 0], [0, a, 0], [0, 0, c]]))
    a, b, c = rng.choice([(2.0, 3.0, 5.0), (3.0, 2.5, 4.0), (1.0, 1.5, 2.75), (4.0, 3.0, 2.0)])
    out.append(('orthorhombic', [[a, 0, 0], [0, b, 0], [0, 0, c]]))
    # hexagonal lattice in a rational orientation: a1 = al(1,-1,0), a2 = al(0,1,-1), c = ga(1,1,1)
    al, ga = rng.choice([(1.0, 1.0), (2.0, 1.5), (1.5, 2.0), (3.0, 1.25), (1.0, 0.75)])
    out.append(('hexagonal', [[al, -al, 0], [0, al, -al], [ga, ga, ga]]))
    al = rng.choice([0.5, 1.0, 1.5])
    rh = rng.choice([[[2, 1, 1], [1, 2, 1], [1, 1, 2]], [[0, 1, 1], [1, 0, 1], [1, 1, 0]],
                     [[3, 1, 1], [1, 3, 1], [1, 1, 3]], [[1, 2, 2], [2, 1, 2], [2, 2, 1]]])
    m = [[al * x for x in r] for r in rh]
    if _det(m) < 0:
        m = [m[1], m[0], m[2]]
    out.append(('rhombohedral', m))
    a, b, cz = d(1, 4) or 1.0, d(1, 4) or 1.0, d(1, 5) or 2.0
    cx = rng.choice([-1.5, -0.75, -0.5, 0.5, 1.25])
    out.append(('monoclinic', [[abs(a), 0, 0], [0, abs(b), 0], [cx, 0, abs(cz)]]))
    lx, ly, lz = [abs(d(1, 5)) or 1.0 for _ in range(3)]
    xy, xz, yz = d(-2, 2), d(-2, 2), d(-2, 2)
    if xy == 0 and xz == 0 and yz == 0:
        xy = 0.75
    out.append(('triclinic', [[lx, 0, 0], [xy, ly, 0], [xz, yz, lz]]))
    return out


def float_cells(rng):
    """cells from the family constructors with generic (non-dyadic) parameters."""
    import atomman as am
    u = rng.uniform
    return [
        ('cubic', am.Box.cubic(u(2.5, 5.5))),
        ('hexagonal', am.Box.hexagonal(u(2.5, 3.5), u(4.0, 6.0))),
        ('tetragonal', am.Box.tetragonal(u(2.5, 4.0), u(4.5, 6.5))),
        ('rhombohedral', am.Box.trigonal(u(2.5, 4.5), u(50.0, 100.0))),
        ('orthorhombic', am.Box.orthorhombic(u(2.5, 3.5), u(3.7, 4.6), u(4.8, 6.0))),
        ('monoclinic', am.Box.monoclinic(u(2.5, 3.5), u(3.7, 4.6), u(4.8, 6.0), u(95.0, 125.0))),
        ('triclinic', am.Box.triclinic(u(2.5, 3.5), u(3.7, 4.6), u(4.8, 6.0), u(70.0, 85.0), u(95.0, 110.0),
                                       u(65.0, 115.0))),
    ]


def primitive_of(conv, setting):
    """primitive cell vectors = P2C[setting] . conv (exact), or None when not exactly representable."""
    P = [[F(x) for x in r] for r in P2C[setting]]
    A = [[F(x) for x in r] for r in conv]
    prim = _matmul(P, A)
    if not all(_is_dyadic(x) for r in prim for x in r):
        return None
    return [[float(x) for x in r] for r in prim]


def planes(N):
    return [(h, k, l) for h in range(-N, N + 1) for k in range(-N, N + 1) for l in range(-N, N + 1)
            if (h, k, l) != (0, 0, 0)]


# ----------------------------------------------------------------------------------------
# implementation calls (run in a fork pool: the pure-python search loops dominate the cost)
# ----------------------------------------------------------------------------------------
def _err_class(e):
    if isinstance(e, AssertionError):
        return 'assert'
    if isinstance(e, ValueError):
        return 'value'
    return type(e).__name__


def _impl_fsb(job):
    vects, hkl, cut, n, setting, rh = job
    import numpy as np
    import atomman as am
    from atomman.defect import free_surface_basis
    try:
        box = am.Box(vects=vects)
        kw = {}
        if rh is not None:
            kw['return_hexagonal'] = rh
        uv, pn = free_surface_basis(list(hkl), box=box, cutboxvector=cut, maxindex=n,
                                    conventional_setting=setting, return_planenormal=True, **kw)
        return ('ok', np.asarray(uv, dtype=float).tolist(), np.asarray(pn, dtype=float).tolist())
    except Exception as e:  # noqa
        return ('err', _err_class(e), str(e)[:120])


_POOL = None


def _pool():
    global _POOL
    if _POOL is None:
        import multiprocessing as mp
        n = max(1, min(8, (os.cpu_count() or 2) - 2))
        _POOL = mp.get_context('fork').Pool(n)
    return _POOL


def _close_pool():
    global _POOL
    if _POOL is not None:
        _POOL.terminate()
        _POOL = None


def _pmap(fn, jobs):
    jobs = list(jobs)
    if len(jobs) < 8:
        return [fn(j) for j in jobs]
    return _pool().map(fn, jobs, chunksize=max(1, len(jobs) // 64))


def _drivers(ctx, k=4):
    """extra driver processes (the model's candidate loops are sequential per process)."""
    ds = [ctx.driver]
    for _ in range(k - 1):
        ds.append(cm.Driver('drv_c14'))
    return ds


def _ask_parallel(ctx, lines):
    lines = list(lines)
    if len(lines) < 64:
        return ctx.driver.ask_many(lines)
    import threading
    ds = _drivers(ctx, 4)
    outs = [None] * len(lines)
    parts = [list(range(i, len(lines), len(ds))) for i in range(len(ds))]

    def run(d, idx):
        res = d.ask_many([lines[i] for i in idx])
        for i, r in zip(idx, res):
            outs[i] = r
    ts = [threading.Thread(target=run, args=(d, idx)) for d, idx in zip(ds, parts)]
    for t in ts:
        t.start()
    for t in ts:
        t.join()
    for d in ds[1:]:
        ctx.driver.n += d.n
        d.close()
    if any(o is None for o in outs):
        raise cm.InfraError('driver died in parallel batch')
    return outs


# ----------------------------------------------------------------------------------------
# free_surface_basis: line building and comparison
# ----------------------------------------------------------------------------------------
def fsb_line(vects, hkl, cut, n, setting, rh):
    import numpy as np
    return ('fsb %s %s %s %s %d %s %s' % (cut, setting or 'p', '-' if n is None else n,
                                         '-' if rh is None else int(bool(rh)), len(hkl),
                                         ' '.join(str(int(x)) for x in hkl), cm.frs(np.asarray(vects, dtype=float))))


def parse_fsb(out):
    """-> dict(kind, shown (list of Fractions), uv3 (9 ints), pn, n, flags) or {'err': cls}."""
    if out.startswith('err:'):
        return {'err': out[4:]}
    parts = [p.split() for p in out[3:].split(';')]
    return {'kind': int(parts[0][0]), 'shown': [F(t) for t in parts[0][1:]], 'uv3': [int(t) for t in parts[1]],
            'pn': [F(t) for t in parts[2]], 'n': int(parts[3][0]), 'flags': [t == '1' for t in parts[4]]}


def to_uv3(impl_uv):
    """implementation output (3x3 or 3x4 floats) -> 9 integers (3-index form), or None if not integral."""
    rows = []
    for r in impl_uv:
        if len(r) == 4:
            r = [2 * r[0] + r[1], 2 * r[1] + r[0], r[3]]
        rows.extend(r)
    ints = [int(round(x)) for x in rows]
    if any(abs(x - i) > 1e-9 for x, i in zip(rows, ints)):
        return None
    return ints


def compare_fsb(ctx, job, impl, out, exact_regime, kindname):
    """one free_surface_basis case: implementation result vs model reply.  Returns a pending `valid` line
    (with context) when the relational model has to decide, else None."""
    vects, hkl, cut, n, setting, rh = job
    info = {'op': 'fsb', 'vects': vects, 'hkl': list(hkl), 'cut': cut, 'maxindex': n, 'setting': setting,
            'return_hexagonal': rh, 'impl': impl, 'model': out}
    m = parse_fsb(out)
    hkl3 = hkl if len(hkl) == 3 else (hkl[0], hkl[1], hkl[3])
    if impl[0] == 'err':
        if 'err' not in m:
            # a search that fails only because its best candidate ties with the initial bound |[n,n,n]| (the model
            # flags it: first / third flag include "within 1e-3 of the bound") is a float tie, not a disagreement
            if impl[1] == 'assert' and not exact_regime and (m['flags'][0] or m['flags'][2]):
                ctx.extra['fsb_refusals_on_bound_tie'] = ctx.extra.get('fsb_refusals_on_bound_tie', 0) + 1
                return None
            ctx.disagree('fsb:refusal', f'free_surface_basis{tuple(hkl)} cut={cut} setting={setting} raised '
                         f'{impl[1]} ({impl[2]}) but the model returns {m["uv3"]}', info)
        elif m['err'] != impl[1]:
            ctx.disagree('fsb:refusal-class', f'free_surface_basis{tuple(hkl)}: implementation {impl[1]}, model {m["err"]}',
                         info)
        return None
    if 'err' in m:
        uv3 = to_uv3(impl[1])
        if m['err'] == 'assert' and not exact_regime and uv3 is not None:
            # the model's search failed, the float search did not: the relational model decides whether the coded
            # answer is a possible outcome (a candidate tying with the initial bound)
            import numpy as np
            line = 'valid %s %s %s %s %s %s 1 1000000000' % (
                cut, setting or 'p', '-' if n is None else n, ' '.join(str(int(x)) for x in hkl3),
                cm.frs(np.asarray(vects, dtype=float)), ' '.join(map(str, uv3)))
            return (line, info, uv3)
        ctx.disagree('fsb:refusal', f'free_surface_basis{tuple(hkl)} cut={cut} setting={setting} maxindex={n} '
                     f'returned {impl[1]} but the model refuses ({m["err"]})', info)
        return None
    # plane normal: exact in the exact regime, 1e-9 relative otherwise
    pn_i, pn_m = impl[2], m['pn']
    scale = max(abs(float(x)) for x in pn_m) or 1.0
    if exact_regime:
        okn = all(F(x) == y for x, y in zip(pn_i, pn_m))
    else:
        okn = all(abs(x - float(y)) <= 1e-9 * scale for x, y in zip(pn_i, pn_m))
    if not okn:
        ctx.disagree('fsb:planenormal', f'planenormal for {tuple(hkl)} setting={setting}: implementation {pn_i}, '
                     f'model {[float(y) for y in pn_m]}', info)
        return None
    uv3 = to_uv3(impl[1])
    if uv3 is None:
        ctx.disagree('fsb:integer', f'free_surface_basis{tuple(hkl)} returned non-integer vectors {impl[1]}', info)
        return None
    # 4-index output: compare the printed form too
    if len(impl[1][0]) != (4 if m['kind'] == 4 else 3):
        ctx.disagree('fsb:format', f'free_surface_basis{tuple(hkl)}: {len(impl[1][0])}-index output, model {m["kind"]}', info)
        return None
    aNear, aExact, bNear, bExact, cTie = m['flags']
    if exact_regime:
        decided = not (aNear or bNear or cTie)
    else:
        decided = not (aNear or aExact or bNear or bExact or cTie)
    if decided:
        if uv3 != m['uv3']:
            ctx.disagree('fsb:uvws', f'free_surface_basis{tuple(hkl)} box={kindname} cut={cut} setting={setting} '
                         f'maxindex={n}: implementation {uv3}, model {m["uv3"]}', info)
        elif m['kind'] == 4:
            flat = [x for r in impl[1] for x in r]
            if not all(abs(x - float(y)) <= 1e-12 for x, y in zip(flat, m['shown'])):
                ctx.disagree('fsb:uvtw', f'Miller-Bravais output for {tuple(hkl)}: {flat} vs model {m["shown"]}', info)
        return None
    # float ties decide: the relational model must accept the coded answer
    import numpy as np
    line = 'valid %s %s %s %s %s %s 1 1000000000' % (
        cut, setting or 'p', '-' if n is None else n,
        ' '.join(str(int(x)) for x in (hkl if len(hkl) == 3 else (hkl[0], hkl[1], hkl[3]))),
        cm.frs(np.asarray(vects, dtype=float)), ' '.join(map(str, uv3)))
    return (line, info, uv3)


# ----------------------------------------------------------------------------------------
# correspondence part 1: free_surface_basis
# ----------------------------------------------------------------------------------------
def _capped(hkl3, setting, cap):
    d = default_maxindex(hkl3, setting)
    return None if d <= cap else cap


def _fsb_jobs(ctx):
    """(job, exact_regime, family) for the sweep."""
    import numpy as np
    rng = ctx.rng
    N = ctx.n(4, 7)
    cap = ctx.n(4, 5)
    ex = exact_cells(rng)
    fl = [(nm, b.vects.tolist()) for nm, b in float_cells(rng)]
    jobs = []
    pl = planes(N)
    if ctx.thorough:
        # thorough: every plane x every family (exact regime) x 3 cuts would be ~10^5 python searches;
        # keep all planes, rotate families per plane, all three cuts
        pass
    off = rng.randrange(1000)
    centred = []
    for st in ('f', 'i', 'a', 'b', 'c', 't1', 't2'):
        for nm, conv in ex:
            if st in ('t1', 't2') and nm != 'hexagonal':
                continue
            if st in ('f',) and nm not in ('cubic', 'orthorhombic'):
                continue
            if st in ('i',) and nm not in ('cubic', 'orthorhombic', 'tetragonal'):
                continue
            if st in ('a', 'b', 'c') and nm not in ('orthorhombic', 'monoclinic', 'triclinic'):
                continue
            conv2 = [[x * (3 if st in ('t1', 't2') else 2) for x in r] for r in conv]
            prim = primitive_of(conv2, st)
            if prim is not None and _det(prim) > 0:
                centred.append((st, nm, prim))
    for i, hkl in enumerate(pl):
        r = (i + off)
        # (1) exact regime, setting p (alternating None / 'p'); thorough: all three cuts
        nm, vects = ex[r % len(ex)]
        st = None if r % 2 else 'p'
        for cut in (CUTS if ctx.thorough else (CUTS[r % 3],)):
            jobs.append(((vects, hkl, cut, _capped(hkl, st, cap), st, None), True, nm))
        # (2) exact regime, centred settings
        st, nm, prim = centred[r % len(centred)]
        cut = CUTS[(r + 1) % 3]
        if ctx.thorough or r % 2 == 0:
            jobs.append(((prim, hkl, cut, _capped(hkl, st, cap), st, None), True, nm + ':' + st))
        # (3) float regime (family constructors)
        nm, vects = fl[r % len(fl)]
        cut = CUTS[(r + 2) % 3]
        if ctx.thorough or r % 2 == 1:
            jobs.append(((vects, hkl, cut, _capped(hkl, None, cap), None, None), False, nm + ':float'))
    # (4) Miller-Bravais input/output on hexagonal cells (exact orientation and the standard float one)
    hexE = [v for nm, v in ex if nm == 'hexagonal'][0]
    hexF = [v for nm, v in fl if nm == 'hexagonal'][0]
    for i, (h, k, l) in enumerate(planes(ctx.n(3, 5))):
        hkil = (h, k, -(h + k), l)
        cut = CUTS[(i + off) % 3]
        rh = [None, None, False, True][(i + off) % 4]
        jobs.append(((hexE, hkil, cut, _capped((h, k, l), None, cap), None, rh), True, 'hexagonal:hkil'))
        if i % 3 == 0:
            jobs.append(((hexF, hkil, cut, _capped((h, k, l), None, cap), None, rh), False, 'hexagonal:hkil:float'))
        if i % 5 == 0:
            jobs.append(((hexE, (h, k, l), cut, _capped((h, k, l), None, cap), None, True), True, 'hexagonal:rh'))
    # (5) refusals and explicit small maxindex (searches that fail), uncapped default maxindex on a few planes
    cub = [v for nm, v in ex if nm == 'cubic'][0]
    tri = [v for nm, v in ex if nm == 'triclinic'][0]
    for hkl in [(0, 0, 0)]:
        jobs.append(((cub, hkl, 'c', None, None, None), True, 'refusal'))
    jobs.append(((cub, (1, 0, -1, 0), 'c', None, None, None), True, 'refusal'))        # hkil with cubic box
    jobs.append(((cub, (1, 0, 0), 'c', None, None, True), True, 'refusal'))             # return_hexagonal, cubic
    jobs.append(((hexE, (1, 1, 1, 0), 'c', None, None, None), True, 'refusal'))         # h+k+i != 0
    jobs.append(((hexE, (0, 0, 0, 0), 'c', None, None, None), True, 'refusal'))
    for hkl in [(3, 1, 0), (2, 3, 1), (4, 1, -3), (1, 2, 3), (0, 3, 2), (5, 0, 1)]:
        for n in (0, 1, 2):
            jobs.append(((tri, hkl, CUTS[n], n, None, None), True, 'small-maxindex'))
            jobs.append(((cub, hkl, CUTS[n], n, 'p', None), True, 'small-maxindex'))
    big = [(3, 4, 1), (2, -3, 4), (4, 3, 2), (-3, 2, 4), (4, 1, 3), (1, 4, -2), (3, -4, 2), (2, 3, -4)]
    rng.shuffle(big)
    for hkl in big[:ctx.n(2, 8)]:
        nm, vects = ex[rng.randrange(len(ex))]
        jobs.append(((vects, hkl, rng.choice(CUTS), None, None, None), True, nm + ':default-maxindex'))
    return jobs


def _correspond_fsb(ctx):
    jobs = _fsb_jobs(ctx)
    impls = _pmap(_impl_fsb, [j for j, _, _ in jobs])
    outs = _ask_parallel(ctx, [fsb_line(*j) for j, _, _ in jobs])
    pending = []
    nvalid = ndecided = nref = 0
    for (job, exact, nm), impl, out in zip(jobs, impls, outs):
        vects, hkl, cut, n, st, rh = job
        canon = (tuple(map(tuple, vects)), tuple(hkl), cut, n, st, rh)
        nontrivial = impl[0] == 'ok'
        ctx.stats.case('fsb:' + nm.split(':')[0] + (':exact' if exact else ':float'), canon, nontrivial=nontrivial,
                       sample={'hkl': list(hkl), 'cut': cut, 'setting': st, 'maxindex': n, 'vects': vects,
                               'impl': impl[1] if impl[0] == 'ok' else impl[1:]})
        if impl[0] == 'err':
            nref += 1
        if impl[0] == 'err' and impl[1] not in ('value', 'assert'):
            ctx.disagree('fsb:exception', f'free_surface_basis{tuple(hkl)} raised {impl[1]}: {impl[2]}',
                         {'op': 'fsb', 'vects': vects, 'hkl': list(hkl), 'cut': cut, 'maxindex': n, 'setting': st,
                          'return_hexagonal': rh})
            continue
        p = compare_fsb(ctx, job, impl, out, exact, nm)
        if p is not None:
            pending.append(p)
            nvalid += 1
        else:
            ndecided += 1
    if pending:
        vouts = _ask_parallel(ctx, [p[0] for p in pending])
        for (line, info, uv3), vo in zip(pending, vouts):
            if vo != '1':
                info = dict(info, valid_reply=vo)
                ctx.disagree('fsb:valid', f'free_surface_basis{tuple(info["hkl"])} cut={info["cut"]} '
                             f'setting={info["setting"]}: coded answer {uv3} is not a possible outcome of the '
                             f'searches ({vo})', info)
    # the driver runs the model at K := Int on the cell scaled to integers; cross-check against K := Rat
    idx = sorted(ctx.rng.sample(range(len(jobs)), min(len(jobs), ctx.n(40, 400))))
    qouts = _ask_parallel(ctx, ['fsbq' + fsb_line(*jobs[i][0])[3:] for i in idx])
    for i, q in zip(idx, qouts):
        a, b = parse_fsb(outs[i]), parse_fsb(q)
        ctx.stats.case('fsb:int-vs-rat', i, nontrivial=False)
        if a.get('err') != b.get('err') or a.get('uv3') != b.get('uv3') or a.get('pn') != b.get('pn'):
            ctx.disagree('fsb:int-vs-rat', f'model at Int and at Rat differ on {jobs[i][0][1]}: {outs[i]} / {q}',
                         {'op': 'fsbq', 'line': fsb_line(*jobs[i][0])})
    ctx.extra['fsb_cases'] = len(jobs)
    ctx.extra['fsb_compared_exactly'] = ndecided
    ctx.extra['fsb_decided_by_relational_model'] = nvalid
    ctx.extra['fsb_refusals'] = nref


def _correspond_tables(ctx):
    """centring matrices of the model vs miller.vector_conventional_to_primitive / _primitive_to_conventional."""
    import numpy as np
    from atomman.tools import miller
    for st in SETTINGS:
        c2p = miller.vector_conventional_to_primitive(np.identity(3), setting=st)
        out = ctx.driver.ask(f'c2p {st}')
        ctx.stats.case('table:c2p', st)
        got = [int(t) for t in out.split(';')[0].split()] if not out.startswith('err') else None
        if got != [int(round(x)) for x in c2p.ravel()] or not np.allclose(c2p, np.rint(c2p)):
            ctx.disagree('table:c2p', f'vector_conventional_to_primitive[{st}] = {c2p.tolist()}, model {out}',
                         {'op': 'c2p', 'setting': st})
        for v in ([1, 0, 0], [0, 1, 0], [0, 0, 1], [1, -2, 3]):
            p2c = miller.vector_primitive_to_conventional(np.array(v), setting=st)
            out = ctx.driver.ask(f'p2c {st} ' + ' '.join(map(str, v)))
            ctx.stats.case('table:p2c', (st, tuple(v)))
            if out.startswith('err') or not cm.allclose(p2c, cm.unfrs(out), 1e-12, 1e-12):
                ctx.disagree('table:p2c', f'vector_primitive_to_conventional[{st}]({v}) = {p2c.tolist()}, model {out}',
                             {'op': 'p2c', 'setting': st, 'v': v})
    for bad in ('x', 'P', ''):
        try:
            miller.vector_conventional_to_primitive(np.identity(3), setting=bad)
            impl = 'ok'
        except ValueError:
            impl = 'value'
        out = ctx.driver.ask(f'c2p {bad}') if bad else 'err:value'
        if (impl == 'value') != out.startswith('err'):
            ctx.disagree('table:c2p', f'unknown setting {bad!r}: implementation {impl}, model {out}', {'op': 'c2p'})


# ----------------------------------------------------------------------------------------
# crystals (literal fractional coordinates; am.load('prototype') needs the network)
# ----------------------------------------------------------------------------------------
def _system(box, frac, atype=None, symbols=None):
    import numpy as np
    import atomman as am
    frac = np.array(frac, dtype=float)
    atype = [1] * len(frac) if atype is None else atype
    atoms = am.Atoms(atype=atype, pos=frac)
    return am.System(atoms=atoms, box=box, scale=True, symbols=symbols)


FCC = [[0, 0, 0], [.5, .5, 0], [.5, 0, .5], [0, .5, .5]]
BCC = [[0, 0, 0], [.5, .5, .5]]
DIA = FCC + [[.25, .25, .25], [.75, .75, .25], [.75, .25, .75], [.25, .75, .75]]
HCP = [[0, 0, 0], [1 / 3, 2 / 3, .5]]


def crystal_params(rng, exact):
    a = rng.choice([2.0, 4.0, 3.5]) if exact else rng.uniform(2.8, 4.2)
    c = rng.choice([3.0, 5.0, 6.5]) if exact else a * rng.uniform(1.5, 1.7)
    return a, c


def crystal_list(a, c, exact):
    """(name, ucell, conventional_setting) — small cells of fcc/bcc/diamond/hcp/L1_2/B2/bct, centred primitives."""
    import atomman as am
    out = [
        ('fcc', _system(am.Box.cubic(a), FCC, symbols=['Al']), 'p'),
        ('bcc', _system(am.Box.cubic(a), BCC, symbols=['Fe']), 'p'),
        ('diamond', _system(am.Box.cubic(a), DIA, symbols=['Si']), 'p'),
        ('L12', _system(am.Box.cubic(a), FCC, atype=[1, 2, 2, 2], symbols=['Au', 'Cu']), 'p'),
        ('B2', _system(am.Box.cubic(a), BCC, atype=[1, 2], symbols=['Ni', 'Al']), 'p'),
        ('bct', _system(am.Box.tetragonal(a, c), BCC, symbols=['In']), 'p'),
        ('hcp', _system(am.Box.hexagonal(a, c), HCP, symbols=['Mg']), 'p'),
        ('fcc-prim', _system(am.Box(vects=[[a / 2, a / 2, 0], [0, a / 2, a / 2], [a / 2, 0, a / 2]]), [[0, 0, 0]],
                             symbols=['Al']), 'f'),
        ('bcc-prim', _system(am.Box(vects=[[a / 2, a / 2, a / 2], [-a / 2, a / 2, -a / 2], [-a / 2, -a / 2, a / 2]]),
                             [[0, 0, 0]], symbols=['Fe']), 'i'),
        ('ortho2', _system(am.Box.orthorhombic(a, a * 1.25 if exact else a * 1.21, c), [[0, 0, 0], [.5, .5, .25]],
                           atype=[1, 2], symbols=['A', 'B']), 'p'),
        # three layers with unequal spacings along c (gaps 1/2, 1/4, 1/4)
        ('tet3', _system(am.Box.tetragonal(a, c), [[0, 0, 0], [.5, .5, .5], [0, 0, .75]], atype=[1, 2, 3],
                         symbols=['A', 'B', 'C']), 'p'),
    ]
    return out


def crystals(rng, exact):
    a, c = crystal_params(rng, exact)
    return crystal_list(a, c, exact)


def _numdec(tol):
    import numpy as np
    return - int(np.floor(np.log10(tol)))


def _layer_margin_ok(xs, W, tol, numdec):
    """the model's exact rounding / isclose steps are away from their float-sensitive boundaries."""
    sc = 10 ** numdec
    for x in xs:
        fr = (x * sc) % 1.0
        if abs(fr - 0.5) < 1e-3:
            return False
    s = sorted(xs)
    gaps = [b - a for a, b in zip(s, s[1:])]
    if any(tol / 50 < g < 50 * tol for g in gaps):
        return False
    d = abs((s[-1] - s[0]) - W)
    return not (tol / 50 < d < 50 * tol)


def _c2p_int(setting):
    L = _inv([[F(x) for x in r] for r in P2C[setting]])
    return [[int(x) for x in r] for r in L]


def _conv_to_prim(uv_conv, setting):
    """FreeSurface.uvws (conventional, 3x3 or 3x4 floats) -> primitive 3-index rows as floats."""
    rows = []
    L = _c2p_int(setting)
    for r in uv_conv:
        if len(r) == 4:
            r = [2 * r[0] + r[1], 2 * r[1] + r[0], r[3]]
        rows.append([sum(r[i] * L[i][j] for i in range(3)) for j in range(3)])
    return rows


def _fs_cases(ctx, exact):
    rng = ctx.rng
    cr = crystals(rng, exact)
    small = planes(2)
    cases = []
    per = ctx.n(5, 40)
    for nm, ucell, st in cr:
        pls = rng.sample(small, per)
        if nm == 'hcp':
            pls = [(h, k, -(h + k), l) if i % 2 else (h, k, l) for i, (h, k, l) in enumerate(pls)]
        for hkl in pls:
            cases.append((nm, ucell, st, hkl, rng.choice(CUTS)))
        # planes that admit every cut vector in the cubic/tetragonal/orthorhombic cells
        for hkl in rng.sample([(1, 0, 0), (0, 1, 0), (0, 0, 1), (0, 0, -1), (1, 1, 0), (1, 1, 1), (0, 1, 1), (1, -1, 0)], 2):
            if nm == 'hcp':
                hkl = (0, 0, 0, 1) if hkl[2] else (1, 0, -1, 0)
            cases.append((nm, ucell, st, hkl, rng.choice(('a', 'b'))))
    return cases


def _correspond_fs(ctx, exact):
    import numpy as np
    import atomman as am
    from atomman.defect import StackingFault
    rng = ctx.rng
    nshift = nfault = nref = nsurf = nund = 0
    for nm, ucell, st, hkl, cut in _fs_cases(ctx, exact):
        tol = rng.choice([1e-7, 1e-8, 1e-6])
        hkl3 = hkl if len(hkl) == 3 else (hkl[0], hkl[1], hkl[3])
        n = _capped(hkl3, st, 3)
        info = {'op': 'FreeSurface', 'crystal': nm, 'a': float(ucell.box.a), 'c': float(ucell.box.c), 'exact': exact,
                'hkl': list(hkl), 'cut': cut, 'setting': st, 'maxindex': n, 'tol': tol}
        vects = ucell.box.vects.tolist()
        try:
            sf = StackingFault(list(hkl), ucell, cutboxvector=cut, maxindex=n, conventional_setting=st, tol=tol)
            impl_err = None
        except (ValueError, AssertionError) as e:
            sf, impl_err = None, (_err_class(e), str(e))
        m = parse_fsb(ctx.driver.ask(fsb_line(vects, hkl, cut, n, st, None)))
        ctx.stats.case('FreeSurface:' + nm, (nm, tuple(hkl), cut, st, exact, float(ucell.box.a)), nontrivial=sf is not None,
                       sample=dict(info, refused=impl_err))
        if 'err' in m:
            if m['err'] == 'assert' and impl_err is None and not exact:
                nund += 1           # float search succeeded on a candidate tying with the initial bound
                continue
            if impl_err is None or impl_err[0] != m['err']:
                ctx.disagree('FreeSurface:refusal', f'FreeSurface({hkl}, {nm}) {impl_err or "succeeded"} but '
                             f'free_surface_basis model refuses ({m["err"]})', info)
            continue
        aNear, aExact, bNear, bExact, cTie = m['flags']
        decided = not (aNear or bNear or cTie) if exact else not any(m['flags'])
        if sf is None:
            # a refusal must be the documented one: the rotated cell is incompatible with the cut vector
            if not decided:
                nund += 1
                continue
            nref += 1
            out = ctx.driver.ask('compat %s %s %s' % (cut, ' '.join(map(str, m['uv3'])), cm.frs(np.array(vects))))
            flag, *dat = out.split()
            ab, ac, yzn, aa, bb, cc = [float(F(t)) for t in dat]
            rel = [abs(ab) / math.sqrt(aa * bb), abs(ac) / math.sqrt(aa * cc)] if cut == 'a' else \
                [abs(yzn) / (aa * math.sqrt(bb * cc))] if cut == 'b' else [0.0]
            if any(1e-9 <= r <= 1e-6 for r in rel):
                continue
            compat = all(r < 1e-9 for r in rel)
            if compat or 'box' not in impl_err[1]:
                ctx.disagree('FreeSurface:refusal', f'FreeSurface({hkl}, {nm}, cut={cut}) raised {impl_err} but the '
                             f'model accepts the cut vector (uvws {m["uv3"]})', dict(info, model=m['uv3']))
            continue
        # ---- uvws -------------------------------------------------------------------------
        uv_conv = np.asarray(sf.uvws, dtype=float).tolist()
        prim = _conv_to_prim(uv_conv, st)
        uv3 = [int(round(x)) for r in prim for x in r]
        if any(abs(x - i) > 1e-9 for x, i in zip([x for r in prim for x in r], uv3)):
            ctx.disagree('FreeSurface:uvws', f'FreeSurface({hkl}, {nm}).uvws {uv_conv} are not lattice vectors', info)
            continue
        if decided:
            if uv3 != m['uv3']:
                ctx.disagree('FreeSurface:uvws', f'FreeSurface({hkl}, {nm}, cut={cut}, setting={st}).uvws -> primitive '
                             f'{uv3}, model {m["uv3"]}', dict(info, impl=uv3, model=m['uv3']))
                continue
            # conventional representation
            L = _c2p_int(st)
            want = []
            for r in range(3):
                o = ctx.driver.ask('p2c %s %s' % (st, ' '.join(map(str, m['uv3'][3 * r:3 * r + 3]))))
                want.append(cm.unfrs(o))
            got3 = [[2 * r[0] + r[1], 2 * r[1] + r[0], r[3]] if len(r) == 4 else r for r in uv_conv]
            if not all(cm.allclose(g, w, 1e-12, 1e-12) for g, w in zip(got3, want)):
                ctx.disagree('FreeSurface:uvws-conventional', f'FreeSurface.uvws {uv_conv} vs model {want}', info)
        else:
            vo = ctx.driver.ask('valid %s %s %s %s %s %s 1 1000000000' % (
                cut, st, '-' if n is None else n, ' '.join(map(str, hkl3)), cm.frs(np.array(vects)),
                ' '.join(map(str, uv3))))
            if vo != '1':
                ctx.disagree('FreeSurface:valid', f'FreeSurface({hkl}, {nm}).uvws {uv3} is not a possible outcome ({vo})',
                             dict(info, impl=uv3))
                continue
        # the accepted cell must be compatible with the cut vector in the model too
        out = ctx.driver.ask('compat %s %s %s' % (cut, ' '.join(map(str, uv3)), cm.frs(np.array(vects))))
        flag, *dat = out.split()
        ab, ac, yzn, aa, bb, cc = [float(F(t)) for t in dat]
        rel = [abs(ab) / math.sqrt(aa * bb), abs(ac) / math.sqrt(aa * cc)] if cut == 'a' else \
            [abs(yzn) / (aa * math.sqrt(bb * cc))] if cut == 'b' else [0.0]
        if any(r > 1e-6 for r in rel):
            ctx.disagree('FreeSurface:refusal', f'FreeSurface({hkl}, {nm}, cut={cut}) accepted a cell the model refuses '
                         f'(uvws {uv3})', dict(info, impl=uv3))
            continue
        # ---- shifts -----------------------------------------------------------------------
        ci = 'abc'.index(cut)
        if sf.cutindex != ci:
            ctx.disagree('FreeSurface:cutindex', f'cutindex {sf.cutindex} for cutboxvector {cut}', info)
        rpos = sf.rcell.atoms.pos
        W = float(sf.rcell.box.vects[ci, ci])
        xs = [float(x) for x in rpos[:, ci]]
        nd = _numdec(tol)
        if _layer_margin_ok(xs, W, tol, nd):
            out = ctx.driver.ask('shifts %d %s %s %s' % (nd, cm.fr(tol), cm.fr(W), cm.frs(xs)))
            want = cm.unfrs(out.split(';')[0])
            got = np.asarray(sf.shifts, dtype=float)
            nshift += 1
            ctx.stats.case('shifts', (nm, tuple(hkl), cut, st, exact, W), sample={'W': W, 'coords': xs[:12], 'shifts': got[:, ci].tolist()})
            other = [j for j in range(3) if j != ci]
            if got.ndim != 2 or got.shape[1] != 3 or len(want) != got.shape[0] or np.abs(got[:, other]).max() != 0.0 \
                    or not cm.allclose(got[:, ci], want, 1e-12, 1e-9 * W):
                ctx.disagree('FreeSurface:shifts', f'FreeSurface({hkl}, {nm}, cut={cut}).shifts {got.tolist()} vs model '
                             f'{[float(w) for w in want]} along the cut', dict(info, coords=xs, W=W))
                continue
        # ---- surface() ---------------------------------------------------------------------
        _correspond_surface(ctx, sf, info, ci, cut, W)
        nsurf += 1
        nfault += _correspond_fault(ctx, sf, info, ci, cut, exact)
    k = 'exact' if exact else 'float'
    ctx.extra[f'fs_{k}'] = {'shift_lists': nshift, 'refusals_checked': nref, 'undecided_refusals': nund,
                           'surface_systems': nsurf, 'fault_systems': nfault}


def _correspond_surface(ctx, sf, info, ci, cut, W):
    import numpy as np
    rng = ctx.rng
    inpl = lambda: rng.choice([1, 1, 2, 3, -2, (-1, 1), (0, 2)])
    sizemults = [inpl(), inpl(), inpl()]
    sizemults[ci] = rng.choice([1, 1, 2, 3, -1, -2, 4])
    minwidth = rng.choice([None, None, rng.uniform(0.3, 4.5) * W, 2.0 * W])
    even = rng.random() < 0.4
    vac = rng.choice([None, None, 0.0, rng.uniform(0.5, 12.0), 8.0, -1.0 if rng.random() < 0.3 else 2.5])
    nsh = len(sf.shifts)
    si = rng.randrange(nsh)
    kw = dict(shiftindex=si, vacuumwidth=vac, minwidth=minwidth, sizemults=list(sizemults), even=even)
    sinfo = dict(info, surface={k: (list(v) if isinstance(v, list) else v) for k, v in kw.items()})
    try:
        system = sf.surface(**kw)
        err = None
    except ValueError as e:
        system, err = None, str(e)
    ctx.stats.case('surface', (info['crystal'], tuple(info['hkl']), cut, str(kw)), nontrivial=system is not None,
                   sample={k: str(v) for k, v in kw.items()})
    q = '-' if minwidth is None else str(int(np.ceil(minwidth / W)))
    mult = int(ctx.driver.ask('mult %d %s %d' % (sizemults[ci], q, int(even))))
    rbox = sf.rcell.box
    vects = rbox.vects.copy()
    origin = rbox.origin.copy()
    mults = []
    for i in range(3):
        s = mult if i == ci else sizemults[i]
        lo, hi = (s if isinstance(s, tuple) else ((0, s) if s > 0 else (s, 0)))
        origin = origin + vects[i] * lo
        vects[i] = vects[i] * (hi - lo)
        mults.append(hi - lo)
    if vac is not None:
        out = ctx.driver.ask('vac %s %s %s %s' % (cut, cm.fr(vac), cm.frs(vects), cm.frs(origin)))
    else:
        out = cm.frs(vects) + ' ' + cm.frs(origin)
    if system is None:
        if not out.startswith('err:value'):
            ctx.disagree('surface:refusal', f'surface({kw}) raised ValueError({err}) but the model accepts', sinfo)
        sf.surface(shiftindex=si)   # leave a system behind for the fault part
        return
    if out.startswith('err'):
        ctx.disagree('surface:refusal', f'surface({kw}) succeeded, model says {out}', sinfo)
        return
    want = cm.unfrs(out)
    got = list(system.box.vects.ravel()) + list(system.box.origin)
    scale = float(np.abs(system.box.vects).max())
    if not cm.allclose(got, want, 1e-12, 1e-10 * scale):
        ctx.disagree('surface:box', f'surface({kw}) box {got} vs model {[float(w) for w in want]} '
                     f'(cut multiplier {mult})', sinfo)
    pbc = [t == '1' for t in ctx.driver.ask('pbc ' + cut).split()]
    if [bool(x) for x in system.pbc] != pbc:
        ctx.disagree('surface:pbc', f'surface() pbc {list(system.pbc)} vs model {pbc} for cut {cut}', sinfo)
    want_n = sf.rcell.natoms * mults[0] * mults[1] * mults[2]
    if system.natoms != want_n:
        ctx.disagree('surface:natoms', f'surface({kw}) has {system.natoms} atoms, model {want_n}', sinfo)
        return
    # positions: supersize (C04's model) + shift + wrap, atom by atom (same replica-major order)
    lohi = []
    for i in range(3):
        s_ = mult if i == ci else sizemults[i]
        lo, hi = (s_ if isinstance(s_, tuple) else ((0, s_) if s_ > 0 else (s_, 0)))
        lohi += [lo, hi]
    out = ctx.driver.ask('surf %s %s %s %s %s' % (' '.join(map(str, lohi)), cm.frs(np.asarray(sf.shift, dtype=float)),
                                                cm.frs(rbox.vects), cm.frs(rbox.origin), cm.frs(sf.rcell.atoms.pos)))
    if out.startswith('err'):
        ctx.disagree('surface:driver', f'model refused surf: {out}', sinfo)
        return
    b_s, p_s, _ = out.split(';')
    sb = np.array([float(x) for x in cm.unfrs(b_s)])
    svects, sorigin = sb[:9].reshape(3, 3), sb[9:]
    M = np.array([float(x) for x in cm.unfrs(p_s)]).reshape(-1, 3)
    P = np.asarray(system.atoms.pos, dtype=float)
    inv = np.linalg.inv(svects)
    drel = (P - M) @ inv
    srel = (M - sorigin) @ inv
    nint = np.rint(drel)
    nearface = np.minimum(srel - np.floor(srel), np.ceil(srel) - srel) < 1e-9
    bad = (np.abs(drel - nint) > 1e-9) | ((nint != 0) & ~nearface)
    if bad.any():
        i = int(np.argmax(bad.any(axis=1)))
        ctx.disagree('surface:positions', f'surface({kw}) atom {i} at {P[i].tolist()}, model {M[i].tolist()} '
                     f'(difference {drel[i].tolist()} cell vectors)', dict(sinfo, atom=i))


def _correspond_fault(ctx, sf, info, ci, cut, exact):
    import numpy as np
    rng = ctx.rng
    system = sf.system
    pos = system.atoms.pos.copy()
    box = system.box
    width = float(box.vects[ci, ci])
    o = float(box.origin[ci])
    done = 0
    xs = np.unique(pos[:, ci])
    for rep in range(2):
        mode = rng.choice(['rel', 'rel', 'mid', 'onplane', 'default'])
        kw = {}
        if mode == 'rel':
            kw['faultpos_rel'] = rng.randrange(0, 17) / 16
        elif mode == 'mid' and len(xs) > 1:
            i = rng.randrange(len(xs) - 1)
            kw['faultpos_cart'] = float((xs[i] + xs[i + 1]) / 2)
        elif mode == 'onplane':
            kw['faultpos_cart'] = float(rng.choice(list(xs)))
        if 'faultpos_cart' in kw and not (0.0 <= (kw['faultpos_cart'] - o) / width <= 1.0):
            kw = {}
        a1 = rng.choice([0.0, 0.5, 1 / 3, 0.25, 1.0, -1.0, 2.0, 0.125])
        a2 = rng.choice([0.0, 0.5, 2 / 3, 0.75, 1.0, -0.5])
        oop = rng.choice([None, None, 0.0, 0.3, -0.2])
        a1c, a2c = np.asarray(sf.a1vect_cart, dtype=float), np.asarray(sf.a2vect_cart, dtype=float)
        sh = cm.unfrs(ctx.driver.ask('fshift %s %s %s %s %s %s' % (cut, cm.fr(a1), cm.fr(a2), cm.fr(oop or 0.0),
                                                                 cm.frs(a1c), cm.frs(a2c))))
        direct = rng.random() < 0.3
        finfo = dict(info, fault=dict(kw, a1=a1, a2=a2, outofplane=oop, direct=direct))
        try:
            if direct:
                new = sf.fault(faultshift=np.array([float(x) for x in sh]), **kw)
            else:
                new = sf.fault(a1=a1, a2=a2, outofplane=oop, **kw)
        except ValueError as e:
            ctx.disagree('fault:raises', f'fault({kw}) raised {e}', finfo)
            continue
        fp = float(sf.faultpos_cart)
        if 'faultpos_rel' in kw and abs(fp - (o + kw['faultpos_rel'] * width)) > 1e-12 * max(1.0, abs(width)):
            ctx.disagree('fault:faultpos', f'faultpos_cart {fp} for faultpos_rel {kw["faultpos_rel"]}', finfo)
        if not kw and rep == 0 and abs(sf.faultpos_rel - 0.5) > 0:
            pass
        line = 'fault %s %s %s %s %s %s' % (cut, ' '.join(str(int(bool(p))) for p in system.pbc), cm.fr(fp),
                                            ' '.join(cm.fr(x) for x in sh),
                                            cm.frs(box.vects) + ' ' + cm.frs(box.origin), cm.frs(pos))
        out = ctx.driver.ask(line)
        if out.startswith('err'):
            ctx.disagree('fault:driver', f'model refused fault: {out}', finfo)
            continue
        p_s, a_s, m_s = out.split(';')
        want = cm.unfrs(p_s)
        above = [t == '1' for t in a_s.split()]
        mw, mf = [float(x) for x in cm.unfrs(m_s)]
        done += 1
        ctx.stats.case('fault', (info['crystal'], tuple(info['hkl']), cut, str(kw), a1, a2, oop, direct),
                       sample={'natoms': int(system.natoms), 'faultpos_cart': fp, 'on_plane': mf == 0.0,
                               'shift': [float(x) for x in sh], **{k: float(v) for k, v in kw.items()}})
        if [bool(x) for x in sf.abovefault] != above:
            bad = [i for i, (x, y) in enumerate(zip(sf.abovefault, above)) if bool(x) != y]
            ctx.disagree('fault:above', f'abovefault differs from the model for atoms {bad[:6]} (coordinates '
                         f'{[float(pos[i, ci]) for i in bad[:6]]}, fault plane at {fp})',
                         dict(finfo, faultpos_cart=fp, atoms=bad[:6]))
            continue
        if mw > 1e-9:
            got = new.atoms.pos.ravel()
            scale = float(np.abs(box.vects).max())
            if not cm.allclose(got, want, 1e-12, 1e-9 * scale):
                d = np.abs(got - np.array([float(w) for w in want])).reshape(-1, 3).max(axis=1)
                i = int(np.argmax(d))
                ctx.disagree('fault:positions', f'fault({kw}, a1={a1}, a2={a2}, outofplane={oop}) moved atom {i} '
                             f'({pos[i].tolist()}) to {new.atoms.pos[i].tolist()}, model '
                             f'{[float(w) for w in want[3 * i:3 * i + 3]]}', dict(finfo, atom=i, faultpos_cart=fp))
    return done


def correspond(ctx):
    try:
        _correspond_tables(ctx)
        _correspond_fsb(ctx)
        _correspond_fs(ctx, True)
        _correspond_fs(ctx, False)
    finally:
        _close_pool()


# ----------------------------------------------------------------------------------------
# search: the clauses of the property on the REAL code, with an independent exact oracle
# ----------------------------------------------------------------------------------------
def _adj_int(L):
    """adjugate of an integer 3x3 (rows): L . adj(L) = det(L) . 1"""
    c = [_cross(L[1], L[2]), _cross(L[2], L[0]), _cross(L[0], L[1])]
    return [[c[j][i] for j in range(3)] for i in range(3)]


def _vm(v, M):
    return [sum(v[i] * M[i][j] for i in range(3)) for j in range(3)]


def _hex_like(vects):
    import numpy as np
    v = np.asarray(vects, dtype=float)
    a, b, c = (np.linalg.norm(v[i]) for i in range(3))
    cos = lambda x, y: float(np.dot(x, y) / (np.linalg.norm(x) * np.linalg.norm(y)))
    return abs(a - b) < 1e-9 * a and abs(cos(v[0], v[1]) + 0.5) < 1e-9 and abs(cos(v[0], v[2])) < 1e-9 \
        and abs(cos(v[1], v[2])) < 1e-9


def o_fsb(ctx, job, exact, impl=None, report=True):
    """clauses of free_surface_basis on one input: integer, right-handed, zone law for the two in-plane rows,
    third row out of plane on the normal's side, normal = reciprocal-lattice direction; in the exact regime also
    the minimality claims of the docstring (shortest in-plane vector, closest to the normal, shortest second
    in-plane vector) inside the index cube.  Returns the list of failed clause names."""
    vects, hkl, cut, n, setting, rh = job
    if impl is None:
        impl = _impl_fsb(job)
    rep = {'op': 'o_fsb', 'job': [vects, list(hkl), cut, n, setting, rh], 'exact': exact}
    failed = []

    def bad(clause, what):
        failed.append(clause)
        if report:
            ctx.violate('fsb:' + clause, f'free_surface_basis({list(hkl)}, cutboxvector={cut!r}, maxindex={n}, '
                        f'conventional_setting={setting!r}) on box {vects}: {what}', rep)
    hkl3 = list(hkl) if len(hkl) == 3 else [hkl[0], hkl[1], hkl[3]]
    hexbox = _hex_like(vects)
    if impl[0] == 'err':
        want_value = (all(x == 0 for x in hkl3) or (len(hkl) == 4 and (not hexbox or hkl[0] + hkl[1] + hkl[2] != 0))
                      or (bool(rh) and not hexbox))
        if impl[1] == 'value' and not want_value:
            bad('refusal', f'raised ValueError({impl[2]}) for a valid plane')
        elif impl[1] not in ('value', 'assert'):
            bad('refusal', f'raised {impl[1]}: {impl[2]}')
        return failed
    if all(x == 0 for x in hkl3):
        bad('refusal', f'accepted the all-zero plane and returned {impl[1]}')
        return failed
    uv3 = to_uv3(impl[1])
    if uv3 is None:
        bad('integer', f'returned non-integer vectors {impl[1]}')
        return failed
    if len(impl[1][0]) == 4 and any(abs(r[0] + r[1] + r[2]) > 1e-12 for r in impl[1]):
        bad('integer', f'Miller-Bravais rows do not satisfy u+v+t=0: {impl[1]}')
    U = [uv3[0:3], uv3[3:6], uv3[6:9]]
    ci = 'abc'.index(cut)
    L = _c2p_int(setting or 'p')
    A = _adj_int(L)
    W = [_vm(r, A) for r in U]              # det(L) x indices relative to the conventional cell
    za, zb, zc = _dot(hkl3, W[(ci + 1) % 3]), _dot(hkl3, W[(ci + 2) % 3]), _dot(hkl3, W[ci])
    if za != 0 or zb != 0:
        bad('in-plane', f'returned {U}: zone law h u + k v + l w = {za}, {zb} (x det L) for the two in-plane vectors')
    if zc == 0:
        bad('out-of-plane', f'returned {U}: the cutboxvector row {U[ci]} lies in the plane')
    V = [[F(x) for x in r] for r in vects]
    dV = _det(V)
    if _det(U) * dV <= 0:
        bad('right-handed', f'returned {U} with determinant {_det(U)} (box determinant {float(dV)})')
    if zc * dV < 0:
        bad('out-of-plane', f'returned {U}: the cutboxvector row points against the plane normal')
    # reported normal = positive multiple of det(Vc) (h a* + k b* + l c*) of the conventional cell Vc = L V
    Vc = _matmul([[F(x) for x in r] for r in L], V)
    g = [sum(hkl3[i] * c[j] for i, c in enumerate([_cross(Vc[1], Vc[2]), _cross(Vc[2], Vc[0]), _cross(Vc[0], Vc[1])]))
         for j in range(3)]
    pn = [F(x) for x in impl[2]]
    cr = _cross(pn, g)
    if exact:
        okn = all(x == 0 for x in cr) and _dot(pn, g) > 0
    else:
        sc = math.sqrt(float(_dot(pn, pn)) * float(_dot(g, g)))
        okn = all(abs(float(x)) <= 1e-9 * sc for x in cr) and _dot(pn, g) > 0
    if not okn:
        bad('normal', f'planenormal {impl[2]} is not along h a* + k b* + l c* = {[float(x) for x in g]} (x det)')
    # minimality inside the index cube (exact regime, small cubes)
    nn = n if n is not None else default_maxindex(hkl3, setting)
    if exact and not failed and nn <= 5:
        G = _matmul(V, [[V[j][i] for j in range(3)] for i in range(3)])
        m2 = lambda v: sum(v[i] * G[i][j] * v[j] for i in range(3) for j in range(3))
        rng_ = range(-nn, nn + 1)
        a, b, c = U[(ci + 1) % 3], U[(ci + 2) % 3], U[ci]
        ma, mb, mc, dc = m2(a), m2(b), m2(c), zc * (1 if dV > 0 else -1)
        for x in rng_:
            for y in rng_:
                for z in rng_:
                    v = [x, y, z]
                    if x == 0 and y == 0 and z == 0:
                        continue
                    d = _dot(hkl3, _vm(v, A)) * (1 if dV > 0 else -1)
                    if d == 0:
                        mv = m2(v)
                        if mv < ma:
                            bad('shortest', f'returned a={a} (|a|^2={float(ma)}) but the in-plane vector {v} is shorter '
                                f'({float(mv)})')
                            return failed
                        if mv < mb and any(_cross(a, v)):
                            bad('shortest', f'returned b={b} (|b|^2={float(mb)}) but the in-plane vector {v}, not '
                                f'parallel to a={a}, is shorter ({float(mv)})')
                            return failed
                    elif d > 0:
                        mv = m2(v)
                        if d * d * mc * (1 - F(1, 10 ** 9)) > dc * dc * mv:
                            bad('closest', f'returned c={c} but {v} is closer to the plane normal '
                                f'(cos^2 {float(d * d / mv)} vs {float(dc * dc / mc)}, common factor dropped)')
                            return failed
    return failed


def _lattice_match(fr, fr_sites, tol=1e-6):
    """index j of the site with fr - fr_sites[j] integer (within tol), else -1."""
    import numpy as np
    d = fr[None, :] - fr_sites
    ok = (np.abs(d - np.rint(d)) < tol).all(axis=1)
    idx = np.nonzero(ok)[0]
    return int(idx[0]) if len(idx) else -1


def _crystal_census(P, atype, T, ucell, what):
    """every position of P (Cartesian, frame rotated by T w.r.t. ucell) is a site of the infinite crystal of
    ucell with the same atom type; returns (message or None, counts per ucell atom)."""
    import numpy as np
    Vu = np.asarray(ucell.box.vects, dtype=float)
    fu = (np.asarray(ucell.atoms.pos, dtype=float) - ucell.box.origin) @ np.linalg.inv(Vu)
    tu = np.asarray(ucell.atoms.atype)
    counts = [0] * len(fu)
    f = (P @ T - ucell.box.origin) @ np.linalg.inv(Vu)       # row p_r -> p_u = T^T p_r  ==  p_r @ T
    for i in range(len(P)):
        j = _lattice_match(f[i], fu)
        if j < 0:
            return f'{what}: atom {i} at {P[i].tolist()} is not on a site of the crystal (fractional ' \
                   f'{np.round(f[i], 6).tolist()} in the unit cell)', counts
        if int(atype[i]) != int(tu[j]):
            return f'{what}: atom {i} has type {int(atype[i])} on a site of type {int(tu[j])}', counts
        counts[j] += 1
    return None, counts


def o_free_surface(ctx, spec, report=True):
    """clauses of FreeSurface / StackingFault on one crystal, plane and cut vector."""
    import numpy as np
    from atomman.defect import StackingFault
    nm, a, c, exact = spec['crystal'], spec['a'], spec['c'], spec['exact']
    hkl, cut, tol, n = spec['hkl'], spec['cut'], spec['tol'], spec['maxindex']
    ucell, st = [(u, s_) for k, u, s_ in crystal_list(a, c, exact) if k == nm][0]
    rng = random.Random(spec['seed'])
    failed = []
    rep = dict(spec, op='o_fs')

    def bad(clause, what):
        failed.append(clause)
        if report:
            ctx.violate('fs:' + clause, f'{nm} (a={a}, c={c}) hkl={hkl} cutboxvector={cut!r} setting={st!r}: {what}',
                        dict(rep, clause=clause))
    try:
        sf = StackingFault(list(hkl), ucell, cutboxvector=cut, maxindex=n, conventional_setting=st, tol=tol)
    except AssertionError:
        return failed
    except ValueError as e:
        if 'cutboxvector' not in str(e):
            bad('refusal', f'raised ValueError({e})')
        return failed
    ci = 'abc'.index(cut)
    if sf.cutindex != ci:
        bad('cutindex', f'cutindex {sf.cutindex}')
        return failed
    rbox = sf.rcell.box
    Vu = np.asarray(ucell.box.vects, dtype=float)
    prim = _conv_to_prim(np.asarray(sf.uvws, dtype=float).tolist(), st)
    U = np.rint(np.array(prim))
    if np.abs(U - np.array(prim)).max() > 1e-9:
        bad('integer', f'uvws {np.asarray(sf.uvws).tolist()} are not lattice vectors of the unit cell')
        return failed
    detU = int(round(np.linalg.det(U)))
    if detU <= 0:
        bad('right-handed', f'uvws {U.tolist()} have determinant {detU}')
        return failed
    # rotation between the frames from the two boxes alone: rvects = U Vu T^T
    Tt = np.linalg.solve(U @ Vu, np.asarray(rbox.vects, dtype=float))
    T = Tt.T
    if np.abs(T @ T.T - np.identity(3)).max() > 1e-9 or abs(np.linalg.det(T) - 1) > 1e-9:
        bad('rotation', f'the rotated cell {rbox.vects.tolist()} is not a proper rotation of uvws.vects')
        return failed
    W = float(rbox.vects[ci, ci])
    inpl = [(ci + 1) % 3, (ci + 2) % 3]
    if any(abs(rbox.vects[i, ci]) > 1e-9 * W for i in inpl):
        bad('in-plane', f'in-plane cell vectors of the rotated cell have a component along the cut: {rbox.vects.tolist()}')
    msg, counts = _crystal_census(np.asarray(sf.rcell.atoms.pos, dtype=float) - rbox.origin * 0, sf.rcell.atoms.atype, T,
                                  ucell, 'rotated cell')
    if msg is None and any(k != detU for k in counts):
        msg = f'rotated cell holds {counts} copies of the unit-cell atoms, expected {detU} each'
    if msg:
        bad('same-crystal', msg)
        return failed
    nsh = len(sf.shifts)
    if nsh == 0:
        bad('shifts', 'no termination shift offered')
        return failed
    # ---- every offered shift (up to 6), random multipliers / minwidth / even / vacuum ------------------------
    idxs = list(range(nsh)) if nsh <= 6 else sorted(rng.sample(range(nsh), 6))
    system = None
    for si in idxs:
        sizemults = [rng.choice([1, 1, 2, -2, (-1, 1)]) for _ in range(3)]
        sizemults[ci] = rng.choice([1, 2, 3, -1, -2])
        minwidth = rng.choice([None, None, rng.uniform(0.5, 3.5) * W])
        even = rng.random() < 0.4
        vac = rng.choice([None, None, rng.uniform(0.5, 9.0), 4.0])
        kw = dict(shiftindex=si, sizemults=list(sizemults), minwidth=minwidth, even=even, vacuumwidth=vac)
        system = sf.surface(**kw)
        tag = f'surface({kw})'
        P = np.asarray(system.atoms.pos, dtype=float)
        if [bool(x) for x in system.pbc] != [i != ci for i in range(3)]:
            bad('pbc', f'{tag}: pbc {list(system.pbc)}')
        mabs = []
        for i in range(3):
            m = sizemults[i]
            mabs.append(m[1] - m[0] if isinstance(m, tuple) else abs(m))
        mcut = int(round((float(system.box.vects[ci, ci]) - (vac or 0.0)) / W))
        if mcut < mabs[ci] or (minwidth is not None and mcut * W < minwidth * (1 - 1e-12)) or (even and mcut % 2):
            bad('multiplier', f'{tag}: {mcut} cells along the cut (requested {sizemults[ci]}, minwidth {minwidth}, '
                f'even {even}, cell width {W})')
        if mcut > max(mabs[ci], 1 if minwidth is None else math.ceil(minwidth / W - 1e-12)) + (1 if even else 0):
            bad('multiplier', f'{tag}: {mcut} cells along the cut is more than asked for')
        want = int(sf.rcell.natoms) * mabs[(ci + 1) % 3] * mabs[(ci + 2) % 3] * mcut
        if system.natoms != want:
            bad('same-crystal', f'{tag}: {system.natoms} atoms, expected {want}')
            continue
        shift = np.asarray(sf.shifts[si], dtype=float)
        if any(abs(shift[i]) > 0 for i in inpl):
            bad('shifts', f'shift {shift.tolist()} is not along the cut direction')
        msg, counts = _crystal_census(P - shift, system.atoms.atype, T, ucell, tag)
        if msg is None and len(set(counts)) != 1:
            msg = f'{tag}: unit-cell atoms are represented {counts} times'
        if msg is None:
            # no two atoms on one site: relative coordinates of the supercell are pairwise distinct
            rel = (P - system.box.origin) @ np.linalg.inv(system.box.vects)
            key = {tuple(np.round(r, 6)) for r in rel}
            if len(key) != len(P):
                msg = f'{tag}: {len(P) - len(key)} atoms share a site with another atom'
        if msg:
            bad('same-crystal', msg)
            continue
        # the cut (cell faces across the non-periodic direction) is strictly between two atomic planes, midway
        xs = P[:, ci]
        lo = float(system.box.origin[ci])
        hi = lo + float(system.box.vects[ci, ci])
        glo, ghi = float(xs.min()) - lo, hi - float(xs.max())
        mlo, mhi = glo - (vac or 0.0) / 2, ghi - (vac or 0.0) / 2
        if glo <= 10 * tol or ghi <= 10 * tol:
            bad('between-planes', f'{tag}: an atomic plane lies on the cut ({glo} / {ghi} between the outermost planes and '
                f'the two faces)')
        elif vac and abs(glo - ghi) > 1e-6 * W:
            bad('vacuum', f'{tag}: the vacuum is not split evenly ({glo} below the slab, {ghi} above)')
        elif mlo <= 10 * tol or mhi <= 10 * tol:
            bad('between-planes', f'{tag}: an atomic plane lies on the cut (distances {mlo}, {mhi} to the two faces '
                f'after removing the vacuum)')
        elif abs(mlo - mhi) > 1e-6 * W:
            bad('between-planes', f'{tag}: the cut is not midway between the planes it separates '
                f'({mlo} below the first plane, {mhi} above the last)')
        # (with vacuum and a tilted cut vector the in-plane relative coordinates change: not a clause of the property)
        srel = (P - system.box.origin) @ np.linalg.inv(system.box.vects)
        if vac is None and (srel.min() < -1e-9 or srel.max() > 1 + 1e-9):
            bad('inside', f'{tag}: atoms outside the box (relative coordinates {srel.min()}..{srel.max()})')
    if failed or system is None:
        return failed
    # ---- stacking fault on the last surface system ---------------------------------------------------------
    P = np.asarray(system.atoms.pos, dtype=float).copy()
    xs = np.unique(np.round(P[:, ci], 6))
    gaps = [(xs[i], xs[i + 1]) for i in range(len(xs) - 1) if xs[i + 1] - xs[i] > 1e-3]
    if not gaps:
        return failed
    a1c = np.asarray(rbox.vects[inpl[0]], dtype=float)      # Cartesian images of the two in-plane lattice vectors
    a2c = np.asarray(rbox.vects[inpl[1]], dtype=float)
    ovect = np.zeros(3)
    ovect[ci] = 1.0
    inv = np.linalg.inv(np.asarray(system.box.vects, dtype=float))
    trials = [(rng.choice([0.5, 1 / 3, 0.25, 0.125, 0.7]), rng.choice([0.0, 0.5, 2 / 3, 0.3]), rng.choice([None, 0.0, 0.3])),
              (1.0, 0.0, None), (0.0, 1.0, None), (-1.0, 1.0, None), (2.0, -1.0, 0.0)]
    o_c, w_c = float(system.box.origin[ci]), float(system.box.vects[ci, ci])
    for it, (a1, a2, oop) in enumerate(trials):
        p, q = rng.choice(gaps)
        fp = float((p + q) / 2)
        fkw = dict(a1=a1, a2=a2, faultpos_cart=fp)
        if it % 2 == 1:
            # the same plane given as a fraction of the extent of the box across the cut
            fkw = dict(a1=a1, a2=a2, faultpos_rel=(fp - o_c) / w_c)
            fp = o_c + fkw['faultpos_rel'] * w_c
        if oop is not None:
            fkw['outofplane'] = oop
        tag = f'fault({fkw}) after surface({kw})'
        frep_full = dict(rep, surface=kw, fault=fkw)
        try:
            new = sf.fault(**fkw)
        except ValueError as e:
            bad('fault', f'{tag} raised ValueError({e})')
            continue
        Q = np.asarray(new.atoms.pos, dtype=float)
        req = a1 * a1c + a2 * a2c + (oop or 0.0) * ovect
        above = P[:, ci] > fp
        if [bool(x) for x in sf.abovefault] != [bool(x) for x in above]:
            bad('fault-mask', f'{tag}: abovefault is not (cut coordinate > {fp})')
            continue
        d = Q - P - np.outer(above, req)
        drel = d @ inv
        nint = np.rint(drel)
        wrong = (np.abs(drel - nint) > 1e-7).any(axis=1) | (np.abs(d[:, ci]) > 1e-7)
        if wrong.any():
            i = int(np.argmax(wrong))
            side = 'above' if above[i] else 'below'
            bad('fault-' + side, f'{tag}: atom {i} ({side} the fault plane, at {P[i].tolist()}) moved by '
                f'{(Q[i] - P[i]).tolist()}, requested {req.tolist() if above[i] else [0, 0, 0]} modulo the in-plane '
                f'cell vectors')
            continue
        lattice = float(a1).is_integer() and float(a2).is_integer() and not oop
        if lattice:
            # a full in-plane lattice vector restores the perfect crystal: same set of sites, same types
            rP = (P - system.box.origin) @ inv
            rQ = (Q - system.box.origin) @ inv
            dd = rQ[:, None, :] - rP[None, :, :]
            dd[:, :, inpl] -= np.rint(dd[:, :, inpl])
            same = (np.abs(dd) < 1e-6).all(axis=2) & (np.asarray(new.atoms.atype)[:, None]
                                                      == np.asarray(system.atoms.atype)[None, :])
            if not ((same.sum(axis=0) == 1).all() and (same.sum(axis=1) == 1).all()):
                bad('fault-restores', f'{tag}: shifting by the lattice vector {a1} a1 + {a2} a2 does not restore the crystal')
    return failed


def _fs_specs(ctx, rng, count):
    specs = []
    small = planes(2)
    names = ['fcc', 'bcc', 'diamond', 'L12', 'B2', 'bct', 'hcp', 'fcc-prim', 'bcc-prim', 'ortho2', 'tet3']
    for i in range(count):
        exact = i % 3 == 0
        a, c = crystal_params(rng, exact)
        nm = names[(i + rng.randrange(3)) % len(names)]
        hkl = rng.choice(small)
        if rng.random() < 0.35:
            hkl = rng.choice([(1, 0, 0), (0, 1, 0), (0, 0, 1), (0, 0, -1), (1, 1, 0), (1, 1, 1), (0, 1, 1), (1, -1, 0)])
            cut = rng.choice(CUTS)
        else:
            cut = rng.choice(('c', 'c', 'a', 'b'))
        if nm == 'hcp' and rng.random() < 0.5:
            hkl = (hkl[0], hkl[1], -(hkl[0] + hkl[1]), hkl[2])
        st = {'fcc-prim': 'f', 'bcc-prim': 'i'}.get(nm, 'p')
        hkl3 = hkl if len(hkl) == 3 else (hkl[0], hkl[1], hkl[3])
        specs.append({'crystal': nm, 'a': a, 'c': c, 'exact': exact, 'hkl': list(hkl), 'cut': cut,
                      'tol': rng.choice([1e-7, 1e-8, 1e-6]), 'maxindex': _capped(hkl3, st, 3),
                      'seed': rng.randrange(1 << 30)})
    return specs


def _impl_fsb_checked(arg):
    job, exact = arg
    return _impl_fsb(job)


def search(ctx, broken):
    rng = random.Random(ctx.seed * 7919 + 14)
    try:
        # (A) free_surface_basis: random planes x cells of every family x cuts x settings, both regimes
        N = ctx.n(5, 9)
        cap = ctx.n(4, 5)
        count = ctx.n(260, 3000) * (3 if broken else 1)
        ex = exact_cells(rng)
        fl = [(nm, b.vects.tolist()) for nm, b in float_cells(rng)]
        centred = []
        for st in ('f', 'i', 'a', 'b', 'c', 't1', 't2'):
            for nm, conv in ex:
                ok = {'t1': ('hexagonal',), 't2': ('hexagonal',), 'f': ('cubic', 'orthorhombic'),
                      'i': ('cubic', 'orthorhombic', 'tetragonal')}.get(st, ('orthorhombic', 'monoclinic', 'triclinic'))
                if nm not in ok:
                    continue
                prim = primitive_of([[x * (3 if st in ('t1', 't2') else 2) for x in r] for r in conv], st)
                if prim is not None and _det(prim) > 0:
                    centred.append((st, nm, prim))
        jobs = []
        for i in range(count):
            hkl = tuple(rng.randint(-N, N) for _ in range(3))
            if rng.random() < 0.3:
                hkl = tuple(x if rng.random() < 0.6 else 0 for x in hkl)
            if hkl == (0, 0, 0) and rng.random() < 0.8:
                hkl = (0, 0, rng.choice([-2, -1, 1, 3]))
            cut = rng.choice(CUTS)
            k = rng.random()
            if k < 0.4:
                nm, vects = rng.choice(ex)
                st = rng.choice([None, 'p'])
                jobs.append(((vects, hkl, cut, _capped(hkl, st, cap), st, None), True))
            elif k < 0.65:
                st, nm, prim = rng.choice(centred)
                jobs.append(((prim, hkl, cut, _capped(hkl, st, cap), st, None), True))
            elif k < 0.9:
                nm, vects = rng.choice(fl)
                jobs.append(((vects, hkl, cut, _capped(hkl, None, cap), None, None), False))
            else:
                hexE = [v for nm, v in ex if nm == 'hexagonal'][0]
                hkil = (hkl[0], hkl[1], -(hkl[0] + hkl[1]), hkl[2])
                jobs.append(((hexE, hkil, cut, _capped(hkl, None, cap), None, rng.choice([None, True, False])), True))
        impls = _pmap(_impl_fsb, [j for j, _ in jobs])
        nf = 0
        for (job, exact), impl in zip(jobs, impls):
            ctx.stats.case('oracle:fsb' + (':exact' if exact else ':float'),
                           (tuple(map(tuple, job[0])), tuple(job[1]), job[2], job[3], job[4], job[5]),
                           nontrivial=impl[0] == 'ok')
            if o_fsb(ctx, job, exact, impl=impl):
                nf += 1
        ctx.extra['oracle_fsb'] = {'cases': len(jobs), 'failed': nf}
    finally:
        _close_pool()
    # (B)+(C) FreeSurface / StackingFault systems
    specs = _fs_specs(ctx, rng, ctx.n(36, 400) * (2 if broken else 1))
    nf = nsys = 0
    for spec in specs:
        ctx.stats.case('oracle:FreeSurface:' + spec['crystal'],
                       (spec['crystal'], spec['a'], spec['c'], tuple(spec['hkl']), spec['cut'], spec['seed']))
        try:
            f = o_free_surface(ctx, spec)
        except Exception as e:  # noqa  (an unexpected exception class is a finding of its own)
            ctx.violate('fs:exception', f'{spec}: {type(e).__name__}: {e}', dict(spec, op='o_fs'))
            f = ['exception']
        nf += bool(f)
        nsys += 1
    ctx.extra['oracle_free_surface'] = {'cases': nsys, 'failed': nf}


def replay(ctx, payload):
    r = payload.get('replay') or {}
    op = r.get('op')
    if op == 'o_fsb':
        vects, hkl, cut, n, setting, rh = r['job']
        f = o_fsb(ctx, (vects, tuple(hkl), cut, n, setting, rh), r.get('exact', False))
        print('replay free_surface_basis oracle:', f or 'all clauses hold')
    elif op == 'o_fs':
        spec = {k: r[k] for k in ('crystal', 'a', 'c', 'exact', 'hkl', 'cut', 'tol', 'maxindex', 'seed')}
        f = o_free_surface(ctx, spec)
        print('replay FreeSurface/StackingFault oracle:', f or 'all clauses hold')
    else:
        if ctx.driver is not None:
            correspond(ctx)
            for d in ctx.disagreements[:10]:
                print('replay: model/implementation disagree:', d.what)
        search(ctx, True)
        print('replay:', 'still fails' if (ctx.violations or ctx.disagreements) else 'passes now')


MANIFEST = {
    'text': 'Lean 4 theorems over an executable model of free_surface_basis / FreeSurface / StackingFault.fault, for ALL '
            'integer planes, cells over every ordered field, maxindex and centring matrices: a successful run returns '
            'non-zero integer vectors inside the index cube, the out-of-plane one an exact gcd reduction (primitive); the '
            'two in-plane vectors satisfy the zone law h u + k v + l w = 0 in the indices of the conventional cell the '
            'plane refers to, the third does not and lies on the side of the normal; (a x b).c > 0 for the Cartesian '
            'images, hence det(uvws) > 0 for a right-handed cell under all three cutboxvector orderings; the reported '
            'normal is the one miller.plane_crystal_to_cartesian computes and a positive multiple of '
            'det.(h a*+k b*+l c*); a is a shortest in-plane candidate, c has the largest cosine to the normal, b is a '
            'shortest second in-plane candidate with the smallest angle to a; ValueError exactly for the zero plane. '
            'Every offered termination shift is minus the midpoint of two neighbouring layers modulo the cell width, so '
            'every image of every layer stays half the interlayer gap away from the cut; surface() holds m_a m_b m_c '
            'copies of each rotated-cell atom at original + shift + lattice vector, inside the supercell, pbc off '
            'across the cut only, multiplier rules, vacuum split evenly; fault() leaves atoms at or below the plane '
            'where they are and moves those above by the requested vector modulo the periodic cell vectors; a shift by '
            'a periodic cell vector (or any translation symmetry of the upper half) restores the crystal. The model is '
            'tied to the code by an exhaustive differential run over planes x families x cuts x settings and over '
            'built surface / fault systems.',
    'note': 'Trusted: Lean kernel + propext/Classical.choice/Quot.sound; numpy; isclose/arccos comparisons modelled as '
            'exact comparisons (float ties handled relationally in the correspondence); floor and sqrt are parameters with '
            'their defining inequalities; rotate/normalize of the unit cell are C04/C05 (here checked on the real objects '
            'by a site census). See docs/C14.md.',
    'technique': 'Lean 4 theorems over a hand-written model + differential correspondence + exact clause oracle',
}
