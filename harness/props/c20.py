"""C20 — path integrators, numerical gradient, climbing rate, string relaxation."""
from __future__ import annotations

import ast
import math
import random
from fractions import Fraction

from .. import common as cm
from ..translate import (TranslationError, get_function, strip_doc, translate_body, ExprTranslator, lit)

PROP = 'C20'
THEOREMS = [
    'C20.euler_linear', 'C20.euler_taylor1', 'C20.rk4_linear', 'C20.rk4_taylor4_scalar',
    'C20.euler_one_step_error', 'C20.rk4_one_step_error_scalar',
    'C20.cd_cubic', 'C20.cd_exact_quadratic', 'C20.cd_error_second_order',
    'C20.rate_zero_iff', 'C20.climb_fixed_point', 'C20.climb_reverses_tangential',
    'C20.phaseSteps_le', 'C20.climb_runs_when_requested', 'C20.phaseSteps_stops_at_first_small',
]
PARTIAL = {
    'relaxation_converges_to_saddle': 'convergence of the iterated float/spline relaxation is not a '
    'theorem about this code; stationary strings are proved critical (rate_zero_iff, climb_fixed_point) '
    'and convergence is explored on the implementation',
}
GENERATED = ['Integrators']

CLS = '[Add V] [Sub V] [Neg V] [SMul K V] [Add K] [Sub K] [Mul K] [Div K] [Neg K] [NatCast K]'


def _integrator(src, name):
    fn = get_function(src, name)
    args = [a.arg for a in fn.args.args]
    if args != ['ratefxn', 'coord', 'timestep']:
        raise TranslationError(f'{name}: unexpected signature {args}')
    lets, final = translate_body(fn.body, {'coord': 'V', 'timestep': 'K'},
                                 calls={'ratefxn': (['V'], 'V', 'ratefxn')})
    body = '\n'.join('  ' + l for l in lets + [final])
    return (f'def {name} {{V K : Type}} {CLS}\n'
            f'    (ratefxn : V → V) (coord : V) (timestep : K) : V :=\n{body}\n')


def _central_difference(src):
    fn = get_function(src, 'central_difference')
    loops = [s for s in strip_doc(fn.body) if isinstance(s, ast.For)]
    if len(loops) != 1:
        raise TranslationError('central_difference: expected one loop')
    loop = loops[0]
    if not (isinstance(loop.target, ast.Name) and ast.unparse(loop.iter) == 'range(ndim)'):
        raise TranslationError('central_difference: loop is not `for i in range(ndim)`')
    i = loop.target.id
    body = []
    saw_zero = saw_set = False
    grad = None
    for st in loop.body:
        u = ast.unparse(st)
        if u == 'δ = np.zeros(ndim)':
            saw_zero = True
        elif u == f'δ[{i}] = shift':
            saw_set = True
        elif u in ('fps.append(fplus)', 'fms.append(fminus)'):
            continue
        elif isinstance(st, ast.Assign) and isinstance(st.targets[0], ast.Name):
            body.append(st)
        elif isinstance(st, ast.Assign) and ast.unparse(st.targets[0]) == f'gradient[..., {i}]':
            grad = st.value
        else:
            raise TranslationError(f'central_difference: unsupported statement {u[:60]}')
    if not (saw_zero and saw_set and grad is not None):
        raise TranslationError('central_difference: δ = shift·e_i construction or gradient assignment not found')
    body.append(ast.Return(value=grad))
    lets, final = translate_body(body, {'coord': 'V', 'shift': 'K', 'δ': 'V'},
                                 calls={'fxn': (['V'], 'K', 'fxn')}, result_type='K')
    b = '\n'.join('  ' + l for l in lets + [final])
    return ('/-- component `i` of `central_difference`; `δ` is the vector built by the loop body\n'
            '    (`δ = zeros; δ[i] = shift`, i.e. `shift • eᵢ`). -/\n'
            f'def cdComponent {{V K : Type}} {CLS}\n'
            f'    (fxn : V → K) (coord δ : V) (shift : K) : K :=\n{b}\n')


def _rates(src):
    out = []
    # rate
    fn = get_function(src, 'rate', inside='step')
    lets, final = translate_body(fn.body, {'coord': 'V'}, calls={'self.grad_energy': (['V'], 'V', 'gradE')},
                                 special=_self_grad)
    b = '\n'.join('  ' + l for l in lets + [final])
    out.append(f'def rate {{V : Type}} [Add V] [Sub V] [Neg V]\n    (gradE : V → V) (coord : V) : V :=\n{b}\n')
    fn = get_function(src, 'climbrate', inside='step')
    if [a.arg for a in fn.args.args] != ['coord', 'τ']:
        raise TranslationError('climbrate: unexpected signature')
    lets, final = translate_body(fn.body, {'coord': 'V', 'τ': 'V'}, special=_self_grad)
    b = '\n'.join('  ' + l for l in lets + [final])
    out.append('/-- per-image climbing rate; `dot` is the row-wise contraction of the einsum '
               "`'ij,ij,il->il'`. -/\n"
               f'def climbrate {{V K : Type}} {CLS}\n'
               f'    (gradE : V → V) (dot : V → V → K) (coord τ : V) : V :=\n{b}\n')
    return '\n'.join(out)


def _self_grad(node, tr):
    if isinstance(node, ast.Call) and ast.unparse(node.func) == 'self.grad_energy' and len(node.args) == 1 \
            and not node.keywords:
        a, t = tr.tr(node.args[0])
        if t != 'V':
            raise TranslationError('grad_energy of a scalar')
        return f'(gradE {a})', 'V'
    if isinstance(node, ast.Call) and ast.unparse(node.func) == 'np.einsum':
        if len(node.args) == 4 and isinstance(node.args[0], ast.Constant) \
                and node.args[0].value.replace(' ', '') == 'ij,ij,il->il':
            a, ta = tr.tr(node.args[1])
            b, tb = tr.tr(node.args[2])
            c, tc = tr.tr(node.args[3])
            if (ta, tb, tc) != ('V', 'V', 'V'):
                raise TranslationError('einsum operands')
            return f'((dot {a} {b}) • {c})', 'V'
        raise TranslationError(f'unsupported einsum: {ast.unparse(node)}')
    return None


def translate():
    parts = ['/- GENERATED by harness/props/c20.py from atomman/mep — do not edit. -/',
             'namespace Atomman.Gen', '']
    parts.append(_integrator(cm.source('atomman/mep/integrator/euler.py'), 'euler'))
    parts.append(_integrator(cm.source('atomman/mep/integrator/rungekutta.py'), 'rungekutta'))
    parts.append(_central_difference(cm.source('atomman/mep/gradient/central_difference.py')))
    parts.append(_rates(cm.source('atomman/mep/ISMPath.py')))
    parts.append('end Atomman.Gen\n')
    return {'Integrators': '\n'.join(parts)}


# ----------------------------------------------------------------------------------------
# correspondence: generated Lean definitions vs the real functions, same exact inputs
# ----------------------------------------------------------------------------------------
RULE = ('random dyadic matrices A (dim 1-6), vectors y, steps h for euler/rungekutta with rate A@y; separable cubic '
        '+ bilinear test functions for central_difference; random gradients/tangents for the climbing rate; '
        'distinct = distinct canonical input line; non-trivial = A, y non-zero and h != 0')
ASSUMPTIONS = ['IEEE double rounding of the implementation is bounded by rtol 1e-9 on the generated inputs '
               '(dyadic, |.|<=8, dim<=6)',
               'numpy matmul/einsum compute the mathematical contraction',
               'Real.exp is the flow of y\' = a y (Mathlib), used only in the two one-step error theorems']
TRUSTED = ['numpy (rate function A@y, einsum) in the correspondence run']


def _np():
    import numpy as np
    return np


def _gen_linear(rng, dim):
    A = [[cm.dyadic(rng, -2, 2, 2) for _ in range(dim)] for _ in range(dim)]
    y = [cm.dyadic(rng, -4, 4, 2) for _ in range(dim)]
    h = rng.choice([0.5, 0.25, 0.125, 1.0, 0.0625, 0.1, 0.05, -0.25])
    return A, y, h


def correspond(ctx):
    np = _np()
    from atomman.mep.integrator import euler, rungekutta
    from atomman.mep.gradient import central_difference
    rng = ctx.rng
    N = ctx.n(300, 5000)
    lines, checks = [], []
    for it in range(N):
        dim = 1 + it % 6
        A, y, h = _gen_linear(rng, dim)
        An, yn = np.array(A), np.array(y)
        for name, f in (('euler', euler), ('rk', rungekutta)):
            impl = f(lambda c: An @ c, yn, h)
            line = f'{name} {dim} ' + cm.frs(An) + ' ' + cm.frs(yn) + ' ' + cm.fr(h)
            lines.append(line)
            checks.append((name, line, list(impl), {'A': A, 'y': y, 'h': h}))
            ctx.stats.case(name, line, nontrivial=bool(An.any() and yn.any() and h != 0),
                           sample={'op': name, 'A': A, 'y': y, 'h': h})
    for it in range(N):
        dim = 1 + it % 4
        a = [cm.dyadic(rng, -2, 2, 2) for _ in range(dim)]
        b = [cm.dyadic(rng, -2, 2, 2) for _ in range(dim)]
        c = [cm.dyadic(rng, -2, 2, 2) for _ in range(dim)]
        m = cm.dyadic(rng, -2, 2, 1)
        x = [cm.dyadic(rng, -2, 2, 3) for _ in range(dim)]
        s = rng.choice([0.5, 0.25, 0.125, 2.0 ** -10])
        an, bn, cn = np.array(a), np.array(b), np.array(c)

        def fxn(v, an=an, bn=bn, cn=cn, m=m):
            return (an * v + bn * v * v + cn * v * v * v).sum(axis=-1) + m * v[..., 0] * v[..., -1]
        impl = central_difference(fxn, np.array(x), s)
        for i in range(dim):
            line = f'cd {dim} {i} ' + ' '.join(map(cm.frs, (a, b, c, x))) + f' {cm.fr(m)} {cm.fr(s)}'
            lines.append(line)
            checks.append(('cd', line, [impl[i]], {'a': a, 'b': b, 'c': c, 'm': m, 'x': x, 'shift': s, 'i': i}))
            ctx.stats.case('cd', line, sample={'op': 'central_difference', 'x': x, 'shift': s, 'i': i})
    # climbing rate formula
    for it in range(ctx.n(100, 1000)):
        dim = 1 + it % 4
        g = [cm.dyadic(rng, -2, 2, 2) for _ in range(dim)]
        tau = [cm.dyadic(rng, -1, 1, 2) for _ in range(dim)]
        G, Tn = np.array([g]), np.array([tau])
        impl = (-G + 2 * np.einsum('ij,ij,il->il', G, Tn, Tn))[0]
        line = f'climb {dim} ' + cm.frs(g) + ' ' + cm.frs(tau)
        lines.append(line)
        checks.append(('climb-formula', line, list(impl), {'g': g, 'tau': tau}))
    outs = ctx.driver.ask_many(lines)
    _relax_flow(ctx, rng)
    for (name, line, impl, info), out in zip(checks, outs):
        if out.startswith('err:'):
            ctx.disagree(f'{name}:driver-error', f'model refused {name}: {out}', {'line': line, 'impl': impl})
            continue
        model = cm.unfrs(out)
        if not cm.allclose(impl, model, rtol=1e-9, atol=1e-12):
            ctx.disagree(name, f'{name}: implementation {impl} != model {[float(v) for v in model]}',
                         {'op': name, 'input': info, 'impl': [float(v) for v in impl],
                          'model': [str(v) for v in model]})


def _relax_flow(ctx, rng):
    """control flow of ISMPath.relax against the Lean `phaseSteps` model: `step` is replaced by a scripted
    displacement sequence, so the number of relaxation / climbing steps performed is observable."""
    np = _np()
    from atomman.mep import ISMPath

    class Scripted(ISMPath):
        script = None   # shared mutable: {'relax': [...], 'climb': [...], 'nr': 0, 'nc': 0}

        def step(self, timestep=None, climbindex=None):
            sc = Scripted.script
            if climbindex is None:
                d = sc['relax'][sc['nr']]
                sc['nr'] += 1
            else:
                d = sc['climb'][sc['nc']]
                sc['nc'] += 1
            new = self.coord.copy()
            new[1, 0] += d * timestep
            return Scripted(new, self.energyfxn, gradientfxn=self.gradientfxn, gradientkwargs={})

    def energy(p):
        return -(p[..., 0] - 0.3) ** 2 - p[..., 1] ** 2
    for it in range(ctx.n(150, 1500)):
        rs, cs = rng.randint(0, 6), rng.randint(0, 6)
        tol = rng.choice([0.5, 0.25, 1.0])
        mk = lambda n: [rng.choice([2.0, 1.0, 0.75, 0.125, 0.0625, 0.5, 0.25]) for _ in range(n)]
        dr, dc = mk(rs), mk(cs)
        Scripted.script = {'relax': dr, 'climb': dc, 'nr': 0, 'nc': 0}
        coord = np.array([[-1.0, 0.0], [0.25, 0.5], [1.0, 0.0]])
        path = Scripted(coord, energy, gradientfxn=(lambda f, c: np.zeros_like(c)), gradientkwargs={})
        path.relax(relaxsteps=rs, climbsteps=cs, timestep=0.5, tolerance=tol, verbose=False)
        got = (Scripted.script['nr'], Scripted.script['nc'])
        m1 = ctx.driver.ask(f'phase {rs} {cm.fr(tol)} ' + cm.frs(dr))
        m2 = ctx.driver.ask(f'phase {cs} {cm.fr(tol)} ' + cm.frs(dc))
        ctx.stats.case('relax-flow', (rs, cs, tol, tuple(dr), tuple(dc)), nontrivial=rs + cs > 0,
                       sample={'op': 'relax-flow', 'relaxsteps': rs, 'climbsteps': cs, 'tolerance': tol,
                               'd_relax': dr, 'd_climb': dc, 'steps_done': got})
        if (str(got[0]), str(got[1])) != (m1, m2):
            ctx.disagree('relax-flow', f'relax(relaxsteps={rs}, climbsteps={cs}, tol={tol}) with step displacements '
                         f'{dr} / {dc} performed {got} steps, model ({m1}, {m2})',
                         {'op': 'relax-flow', 'relaxsteps': rs, 'climbsteps': cs, 'tol': tol, 'dr': dr, 'dc': dc,
                          'impl': got, 'model': [m1, m2]})


# ----------------------------------------------------------------------------------------
# search: the property's own clauses evaluated on the real code (exact rational oracle)
# ----------------------------------------------------------------------------------------
def _taylor(A, y, h, deg):
    """sum_{k<=deg} (hA)^k y / k!  with Fractions."""
    n = len(y)
    A = [[Fraction(v) for v in r] for r in A]
    term = [Fraction(v) for v in y]
    tot = list(term)
    hh = Fraction(h)
    for k in range(1, deg + 1):
        term = [hh * sum(A[i][j] * term[j] for j in range(n)) / k for i in range(n)]
        tot = [a + b for a, b in zip(tot, term)]
    return tot


def search(ctx, broken):
    np = _np()
    from atomman.mep.integrator import euler, rungekutta
    from atomman.mep.gradient import central_difference
    rng = random.Random(ctx.seed + 1)
    N = ctx.n(200, 3000) * (3 if broken else 1)
    for it in range(N):
        dim = 1 + it % 6
        A, y, h = _gen_linear(rng, dim)
        An, yn = np.array(A), np.array(y)
        for name, f, deg in (('euler', euler, 1), ('rungekutta', rungekutta, 4)):
            impl = f(lambda c: An @ c, yn, h)
            want = _taylor(A, y, h, deg)
            ctx.stats.case('oracle:' + name, (A, y, h))
            if not cm.allclose(impl, want, rtol=1e-9, atol=1e-11):
                ctx.violate(f'{name}:taylor', f'{name} on y\'=Ay is not the degree-{deg} Taylor polynomial of exp(hA) y: '
                            f'got {list(map(float, impl))}, expected {[float(w) for w in want]}',
                            {'op': name, 'A': A, 'y': y, 'h': h, 'impl': list(map(float, impl)),
                             'expected': [str(w) for w in want]})
    # order of the one-step error: err(h)/err(h/2) -> 2^(p+1)
    for name, f, p in (('euler', euler, 1), ('rungekutta', rungekutta, 4)):
        for a in (1.0, -0.75, 0.5):
            errs = []
            for h in (0.2, 0.1, 0.05):
                errs.append(abs(float(f(lambda c: a * c, np.array([1.0]), h)[0]) - math.exp(a * h)))
            ctx.stats.case('oracle:order', (name, a))
            ratios = [errs[i] / errs[i + 1] for i in range(2) if errs[i + 1] > 0]
            if any(r < 2 ** (p + 1) * 0.8 for r in ratios):
                ctx.violate(f'{name}:order', f'{name}: one-step error ratios {ratios} on halving h, '
                            f'expected about {2 ** (p + 1)} (order {p})',
                            {'op': name + ':order', 'a': a, 'errs': errs})
    # numerical gradient: second order in the step on smooth functions (sin/exp mix)
    for it in range(ctx.n(40, 400)):
        dim = 1 + it % 3
        x = np.array([rng.uniform(-1, 1) * rng.choice([1.0, 3.0, 8.0]) for _ in range(dim)])
        w = np.array([rng.uniform(0.5, 2) for _ in range(dim)])

        def fxn(v, w=w):
            return np.sin(w * v).sum(axis=-1) + np.exp(0.3 * v.sum(axis=-1))
        exact = w * np.cos(w * x) + 0.3 * math.exp(0.3 * x.sum())
        e1 = np.abs(central_difference(fxn, x, 1e-2) - exact).max()
        e2 = np.abs(central_difference(fxn, x, 5e-3) - exact).max()
        ctx.stats.case('oracle:cd-order', tuple(x))
        if e1 > 1e-2 or (e2 > 1e-10 and e1 / e2 < 3.0):
            ctx.violate('central_difference:order', f'gradient error {e1} at shift 1e-2, {e2} at 5e-3 (ratio {e1 / max(e2, 1e-300):.2f}, expected ~4)',
                        {'op': 'cd-order', 'x': x.tolist(), 'w': w.tolist(), 'e1': float(e1), 'e2': float(e2)})
        # shape handling: (n, dim) input gives row-wise gradients
        X = np.array([x, x * 0.5])
        G = central_difference(fxn, X, 1e-3)
        g0 = central_difference(fxn, x, 1e-3)
        if G.shape != X.shape or not np.allclose(G[0], g0, rtol=1e-9, atol=1e-12):
            ctx.violate('central_difference:shape', 'array-of-points gradient differs from the single-point gradient',
                        {'op': 'cd-shape', 'x': x.tolist()})
    _search_relax(ctx, rng)


def _search_relax(ctx, rng):
    """partial clause (explored on the implementation): string relaxation on the family
         E(x,y) = (x^2-1)^2 + a (x^3/3 - x) + k (y - c (x^2-1))^2 ,  |a| < 4
       minima (-1,0), (+1,0); saddle (-a/4, c (a^2/16 - 1)) on the valley floor."""
    np = _np()
    import atomman.mep as mep
    n_cases = ctx.n(4, 16)
    for it in range(n_cases):
        k = rng.choice([1.5, 2.0, 3.0])
        c = rng.choice([0.0, 0.5, -0.4, 0.7])
        a = rng.choice([0.0, 0.6, -0.5, 0.3]) if it else 0.6
        xs = -a / 4
        saddle = np.array([xs, c * (xs * xs - 1)])

        def energy(p, k=k, c=c, a=a):
            p = np.asarray(p)
            x, y = p[..., 0], p[..., 1]
            return (x * x - 1) ** 2 + a * (x ** 3 / 3 - x) + k * (y - c * (x * x - 1)) ** 2

        def grad(p, k=k, c=c, a=a):
            x, y = p[..., 0], p[..., 1]
            u = y - c * (x * x - 1)
            gx = 4 * x * (x * x - 1) + a * (x * x - 1) + 2 * k * u * (-2 * c * x)
            gy = 2 * k * u
            return np.stack([gx, gy], axis=-1)
        barrier = float(energy(saddle))
        nimg = rng.choice([8, 10, 11, 13])
        bend = rng.choice([0.0, 0.3, -0.2])
        t = np.linspace(0, 1, nimg)
        coord = np.outer(1 - t, [-0.8, 0.25]) + np.outer(t, [1.15, -0.2])
        coord[:, 1] += bend * np.sin(np.pi * t)
        variants = [('default', dict(relaxsteps=20000, climbsteps=20000)),     # relaxation converges by tolerance, then climbs
                    ('rk', dict(relaxsteps=150, climbsteps=20000)),            # short relaxation, then climbing
                    ('euler', dict(relaxsteps=20000, climbsteps=20000))]
        for integ, kw in variants[: (3 if it < 2 or ctx.thorough else 1)]:
            info = {'op': 'relax', 'k': k, 'c': c, 'a': a, 'images': nimg, 'bend': bend, 'options': integ, **kw}
            try:
                if integ == 'default':
                    path = mep.create_path(coord, energy)
                else:
                    path = mep.create_path(coord, energy, gradientfxn=(lambda fxn, p, grad=grad: grad(p)),
                                           gradientkwargs={}, integratorfxn=integ)
            except Exception as e:  # noqa
                ctx.violate('create_path:' + integ, f'create_path with {integ} options raised {type(e).__name__}: {e}', info)
                continue
            try:
                new = path.relax(verbose=False, **kw)
            except Exception as e:  # noqa
                ctx.violate('relax:raises', f'relax raised {type(e).__name__}: {e}', info)
                continue
            E = new.energy()
            top = int(np.argmax(E))
            g = float(np.abs(grad(new.coord[top])).max())
            ends_ok = np.allclose(new.coord[0], [-1, 0], atol=2e-3) and np.allclose(new.coord[-1], [1, 0], atol=2e-3)
            saddle_ok = np.allclose(new.coord[top], saddle, atol=2e-3) and abs(E[top] - barrier) < 1e-5 and g < 2e-3
            ctx.stats.case('oracle:relax', (k, c, a, nimg, bend, integ),
                           sample={**info, 'saddle_found': new.coord[top].tolist(), 'saddle': saddle.tolist(),
                                   'barrier_found': float(E[top]), 'barrier': barrier})
            if not (ends_ok and saddle_ok):
                ctx.violate('relax:saddle', f'relaxed string misses minima/saddle ({integ}, k={k}, c={c}, a={a}, N={nimg}, '
                            f'bend={bend}): ends {new.coord[0]}, {new.coord[-1]}; top image {new.coord[top]} E={E[top]:.8f} '
                            f'|grad|={g:.2e} (saddle {saddle}, barrier {barrier:.8f})', info)


def replay(ctx, payload):
    """re-run one stored case against the current tree."""
    np = _np()
    from atomman.mep.integrator import euler, rungekutta
    r = payload.get('replay', {})
    op = r.get('op')
    if op in ('euler', 'rungekutta'):
        f, deg = (euler, 1) if op == 'euler' else (rungekutta, 4)
        An, yn = np.array(r['A']), np.array(r['y'])
        impl = f(lambda c: An @ c, yn, r['h'])
        want = _taylor(r['A'], r['y'], r['h'], deg)
        print('replay', op, 'impl', list(map(float, impl)), 'expected', [float(w) for w in want])
        if not cm.allclose(impl, want, rtol=1e-9, atol=1e-11):
            ctx.violate(f'{op}:taylor', 'replayed case still fails', r)
    else:
        search(ctx, True)

MANIFEST = {
    'text': 'Euler/Runge-Kutta/central-difference/climbing-rate definitions are regenerated from the Python source on '
            'every run and the theorems (degree-1/degree-4 Taylor polynomial of exp(hA) for every linear map over every '
            'field of characteristic 0, one-step error bounds over R, exactness/second-order error of the gradient, '
            'stationary images are critical points) are re-checked by the Lean kernel against them; relaxation to the '
            'saddle is partial (explored on the implementation).',
    'note': 'Trusted: Lean kernel + propext/Classical.choice/Quot.sound; the AST translator (harness/translate.py, '
            'props/c20.py); numpy matmul/einsum; float rounding bounded by rtol 1e-9 in the correspondence. '
            'Convergence of relax() is not proved (iterative float + spline code): partial.',
    'technique': 'Lean 4 theorems over translator-generated definitions + differential correspondence',
}
