"""C20 — path integrators, numerical gradient, climbing rate, path objects, string relaxation.

Round 5: translate() also writes Generated/PathSource.lean (BasePath / ISMPath / create_path as Lean definitions, proved equal
to the hand model in Proofs/C20_Source.lean); correspond() has the `ctor` op (construction with every combination of arguments).

translate(): euler, rungekutta, the component formula and default shift of central_difference, rate and climbrate of
ISMPath.step -> Lean definitions (Generated/Integrators.lean), re-proved on every run.
correspond(): the generated definitions on exact inputs; central_difference on arrays of every leading shape; the
control flow of relax with a scripted step; BasePath/ISMPath driven as a state machine (operation sequences on one
object) against the Lean path object held by the stateful driver `drv_c20`.
search(): the clauses on the real code with fractions.Fraction (no Lean): Taylor polynomials, error orders, input
arrays untouched, exact gradient (+ c3 s^2) on arrays of every leading shape, the same operation sequences against
the exact oracle of the tracked state and against a freshly built path, relaxation on the two-minimum family
(minima, saddle, barrier; then the relaxed string loaded back into the path it came from).
"""
from __future__ import annotations

import ast
import math
import random
import time
from fractions import Fraction

from .. import common as cm
from ..translate import (TranslationError, get_function, strip_doc, translate_body, ExprTranslator, lit)

PROP = 'C20'
THEOREMS = [
    'C20.euler_linear', 'C20.euler_taylor1', 'C20.rk4_linear', 'C20.rk4_taylor4_scalar',
    'C20.euler_one_step_error_scalar', 'C20.rk4_one_step_error_scalar',
    'C20.relaxLoop_runs_once', 'C20.relax_climb_runs_when_requested',
    'C20.cd_cubic', 'C20.cd_exact_quadratic', 'C20.cd_error_second_order',
    'C20.rate_zero_iff', 'C20.climb_fixed_point', 'C20.climb_reverses_tangential',
    'C20.phaseSteps_le', 'C20.climb_runs_when_requested', 'C20.phaseSteps_stops_at_first_small',
    # the path object: reads are functions of the current field values (no hidden state)
    'C20.run_eq_fields', 'C20.run_energyfxn', 'C20.gradEnergy_after_setCoord', 'C20.energy_after_setCoord',
    'C20.gradEnergy_after_setKwargs', 'C20.gradEnergy_after_setGradientfxn',
    # tangents, arc coordinates, force
    'C20.unitOf_unit', 'C20.unitTangent_unit', 'C20.arccoord_length', 'C20.arccoord_head', 'C20.arccoord_mono',
    'C20.force_zero_of_critical',
    # images under a step: critical points are the fixed points; settings carried over
    'C20.stepRow_euler_fixed_iff', 'C20.stepRow_rk_fixed_of_critical', 'C20.iterateRows_critical',
    'C20.climbRow_euler_fixed_is_critical', 'C20.icoordPlain_length', 'C20.withCoord_fields',
    'C20.relaxPhase_steps_le', 'C20.relaxPhase_eq_iterate', 'C20.relaxPhase_steps_eq_phaseSteps',
    # central_difference on arrays of points, default time step / tolerance
    'C20.cdArray_length', 'C20.cdArray_getElem', 'C20.cdPoint_components_cubic',
    'C20.defaultTimestep_pos', 'C20.defaultTimestep_le', 'C20.defaultTolerance_pos',
    # no absolute scale enters a step: another unit of the state, another unit of time
    'C20.euler_homogeneous', 'C20.rk4_homogeneous', 'C20.rk4_linear_homogeneous', 'C20.euler_time_rescale',
    'C20.rk4_time_rescale',
    # the climbing images chosen by relax
    'C20.climbIndices_length_le', 'C20.climbIndices_interior_max', 'C20.climbIndices_first', 'C20.climbIndices_complete',
    'C20.localMaxima_sorted',
    # units of length
    'C20.unitOf_scale_invariant', 'C20.unitTangent_scale_invariant', 'C20.arccoord_scale', 'C20.stepRow_homogeneous',
    # fixed points of the moves and of a whole step; what the stopping test of relax means
    'C20.climbrate_norm_sq', 'C20.climbRow_fixed_of_critical', 'C20.climbRow_euler_fixed_iff',
    'C20.unitTangentOf_length', 'C20.icoord_length', 'C20.icoord_getElem?',
    'C20.stringStep_fixed_pinned_critical', 'C20.stringStep_critical_pinned_fixed',
    'C20.displacement_lt_rows', 'C20.euler_converged_gradient_lt', 'C20.euler_climb_converged_gradient_lt',
    'C20.relaxPhase_stopped_early', 'C20.relaxPhase_measures_before_last',
    # where a step places the new images (newα): pinned images at their own arc coordinate, equal spacing in between
    'C20.linspace_length', 'C20.linspace_first', 'C20.linspace_last', 'C20.linspace_step',
    'C20.respaceGo_length', 'C20.respaceGo_pinned', 'C20.respaceTargets_length', 'C20.respaceTargets_pinned',
    'C20.splineRespace_keeps_pinned', 'C20.stringStep_spline_fixed_pinned_critical',
    # climbing images named from the end (negative indices); the textbook form of the Runge-Kutta step is the same function
    'C20.pyIndex_nonneg', 'C20.pyIndex_neg_equiv', 'C20.pyIndex_out_of_range', 'C20.climbImages_neg_equiv', 'C20.rk4_textbook_form',
    # round 5 (extender): source tie Generated/PathSource.lean — every generated definition equals the hand model
    'C20.gen_resolveGradientfxn_eq_model', 'C20.gen_resolveIntegratorfxn_eq_model', 'C20.gen_sigInit_eq_model',
    'C20.gen_sigCreatePath_eq_model', 'C20.gen_sigStep_eq_model', 'C20.gen_sigRelax_eq_model', 'C20.gen_initOrder_eq_model',
    'C20.gen_defaults_eq_model', 'C20.gen_stepCarried_eq_model', 'C20.gen_interpCarried_eq_model',
    'C20.gen_stepSegmentPins_eq_model', 'C20.gen_initPath_eq_model', 'C20.gen_createPath_eq_model',
    'C20.gen_defaultTimestep_eq_model', 'C20.gen_defaultTolerance_eq_model', 'C20.genLoop_eq_relaxLoop',
    'C20.gen_measure_eq_model', 'C20.gen_loopBody1_eq_model', 'C20.gen_loopBody2_eq_model', 'C20.gen_climbindex_eq_model',
    'C20.gen_unitTangent_eq_model', 'C20.gen_relax_eq_model',
    # the loops of relax over whole strings, relax as a whole (options, climbing images, end to end)
    'C20.relaxLoop_zero', 'C20.relaxLoop_measures_length_le', 'C20.relaxLoop_invariant', 'C20.relaxLoop_eq_iterate',
    'C20.relaxLoop_stopped_early', 'C20.relaxLoop_measures_before_last', 'C20.climbIndices_sorted_interior',
    'C20.relax_default_options', 'C20.relax_zero_steps', 'C20.relax_steps_le', 'C20.relax_fields',
    'C20.stringStep_spline_length', 'C20.stringStep_spline_keeps_critical_row', 'C20.relax_spline_critical_ends_fixed',
    # construction: what create_path / __init__ accept, refuse (which exception first) and select
    'C20.resolveGradientfxn_ok_iff', 'C20.resolveIntegratorfxn_ok_iff', 'C20.resolve_error_class', 'C20.createPath_ok_iff',
    'C20.createPath_defaults', 'C20.createPath_style_first', 'C20.createPath_energy_first',
    # reads and range check as generated definitions; Taylor clause with matrices of every dimension
    'C20.gen_energy_eq_model', 'C20.gen_gradEnergy_eq_model', 'C20.gen_force_eq_model', 'C20.gen_interpRefuses_eq_model',
    'C20.gen_arccoord_eq_model', 'C20.cumsum_eq_prefix_sums', 'C20.interpRefuses_iff', 'C20.euler_matrix', 'C20.rk4_matrix',
]
PARTIAL = {
    'relaxation_converges_to_saddle': 'convergence of the iterated float/spline relaxation is not a '
    'theorem about this code. Proved about its fixed points: an image is left in place by an Euler move (ordinary or '
    'climbing, unit tangent) iff the gradient vanishes there, both integrators leave critical points in place '
    '(stepRow_euler_fixed_iff, climbRow_euler_fixed_iff, stepRow_rk_fixed_of_critical, climbRow_fixed_of_critical); a whole '
    'step = integration + any re-spacing that keeps first, last and climbing rows (stringStep) that returns its string has '
    'these rows at critical points, and conversely leaves such rows in place (stringStep_fixed_pinned_critical, '
    'stringStep_critical_pinned_fixed). Proved about the control flow: each phase performs at most the requested steps, '
    'stops right after the first convergence measure below the tolerance and not later (phaseSteps_*, relaxPhase_*, '
    'relaxPhase_stopped_early, relaxPhase_measures_before_last), the climbing phase runs whatever the relaxation phase did, '
    'the climbing images are the first climbpoints interior maxima of the energies after the relaxation phase '
    '(climbIndices_*); a measure below the tolerance means every kept image moved less than tolerance*timestep and, for '
    'Euler, that the gradient there is shorter than the tolerance, at climbing images too since the climbing rate has the '
    'length of the gradient (displacement_lt_rows, euler_converged_gradient_lt, euler_climb_converged_gradient_lt, '
    'climbrate_norm_sq). Not proved: that the iteration reaches such a string, the interior images, Runge-Kutta fixed points '
    'being critical (false in general for large steps); convergence is explored on the implementation against analytically '
    'known minima, saddle and barrier',
    'step_interior_images': 'the cubic spline through the integrated images is scipy code outside the model. In the model: '
    'the integrated coordinates (icoord), their arc coordinates, the arc coordinates at which the new images are placed '
    '(respaceTargets = the newα handed to interpolate_path, observed on every step and compared exactly) with the theorems '
    'that pinned images (first, last, climbing) are placed at their own arc coordinate and the others equally spaced in '
    'between; with an interpolant that returns its knots the pinned rows are therefore kept (splineRespace_keeps_pinned). '
    'The values of the spline between the knots (interior images) are compared with an independent spline evaluation on '
    'the oracle side only',
    'gradient_second_order_general': 'second order of the numerical gradient is proved for functions that are cubic '
    'along the coordinate axes (exact error c3 s^2); for general smooth functions it is measured on the implementation '
    '(error ratio on halving the step) on arrays of every leading shape',
    'one_step_error_matrix': 'the one-step error BOUND against exp(hA) (order 2 for Euler, order 5 for Runge-Kutta) is '
    'proved for real scalars only (euler_one_step_error_scalar, rk4_one_step_error_scalar, |h a| <= 1); for matrices of '
    'every dimension the step is proved to BE the Taylor polynomial of exp(hA) of degree 1 / 4 applied to y '
    '(euler_matrix, rk4_matrix, euler_linear, rk4_linear), so the error is the tail of the exponential series, but the '
    'norm estimate of that tail is not a Lean theorem; the error ratio on halving the step is measured on the '
    'implementation for dimensions 1-6',
}
GENERATED = ['Integrators', 'PathSource']

CLS = '[Add V] [Sub V] [Neg V] [SMul K V] [Add K] [Sub K] [Mul K] [Div K] [Neg K] [NatCast K]'


def _integrator(src, name):
    fn = get_function(src, name)
    args = [a.arg for a in fn.args.args]
    if args != ['ratefxn', 'coord', 'timestep']:
        raise TranslationError(f'{name}: unexpected signature {args}')
    if fn.args.kwarg is None or fn.args.vararg is not None or fn.args.kwonlyargs or fn.args.defaults:
        raise TranslationError(f'{name}: signature is not (ratefxn, coord, timestep, **kwargs)')
    # the model's `ratefxn : V -> V` is the rate function with the step's keyword arguments bound: every stage must
    # call it with exactly these (a stage that drops them evaluates a different function)
    ncalls = 0
    for node in ast.walk(fn):
        if isinstance(node, ast.Call) and isinstance(node.func, ast.Name) and node.func.id == 'ratefxn':
            ncalls += 1
            kws = node.keywords
            if not (len(node.args) == 1 and len(kws) == 1 and kws[0].arg is None and isinstance(kws[0].value, ast.Name)
                    and kws[0].value.id == fn.args.kwarg.arg):
                raise TranslationError(f'{name}: a stage does not hand the keyword arguments of the step to the rate '
                                       f'function: {ast.unparse(node)}')
        if isinstance(node, (ast.Assign, ast.AugAssign, ast.Delete)) and fn.args.kwarg.arg in ast.unparse(node).split('=')[0]:
            raise TranslationError(f'{name}: the keyword arguments are modified: {ast.unparse(node)[:60]}')
    if ncalls == 0:
        raise TranslationError(f'{name}: the rate function is never called')
    lets, final = translate_body(fn.body, {'coord': 'V', 'timestep': 'K'},
                                 calls={'ratefxn': (['V'], 'V', 'ratefxn')})
    body = '\n'.join('  ' + l for l in lets + [final])
    return (f'def {name} {{V K : Type}} {CLS}\n'
            f'    (ratefxn : V → V) (coord : V) (timestep : K) : V :=\n{body}\n')


def _central_difference(src):
    fn = get_function(src, 'central_difference')
    loops = [s for s in strip_doc(fn.body) if isinstance(s, ast.For)]
    if len(loops) != 1:
        raise TranslationError('central_difference: expected one loop')
    loop = loops[0]
    if not (isinstance(loop.target, ast.Name) and ast.unparse(loop.iter) == 'range(ndim)'):
        raise TranslationError('central_difference: loop is not `for i in range(ndim)`')
    i = loop.target.id
    body = []
    saw_zero = saw_set = False
    grad = None
    for st in loop.body:
        u = ast.unparse(st)
        if u == 'δ = np.zeros(ndim)':
            saw_zero = True
        elif u == f'δ[{i}] = shift':
            saw_set = True
        elif u in ('fps.append(fplus)', 'fms.append(fminus)'):
            continue
        elif isinstance(st, ast.Assign) and isinstance(st.targets[0], ast.Name):
            body.append(st)
        elif isinstance(st, ast.Assign) and ast.unparse(st.targets[0]) == f'gradient[..., {i}]':
            grad = st.value
        else:
            raise TranslationError(f'central_difference: unsupported statement {u[:60]}')
    if not (saw_zero and saw_set and grad is not None):
        raise TranslationError('central_difference: δ = shift·e_i construction or gradient assignment not found')
    body.append(ast.Return(value=grad))
    lets, final = translate_body(body, {'coord': 'V', 'shift': 'K', 'δ': 'V'},
                                 calls={'fxn': (['V'], 'K', 'fxn')}, result_type='K')
    b = '\n'.join('  ' + l for l in lets + [final])
    argnames = [a.arg for a in fn.args.args]
    if argnames != ['fxn', 'coord', 'shift'] or len(fn.args.defaults) != 1 or fn.args.kwarg or fn.args.vararg:
        raise TranslationError(f'central_difference: unexpected signature {argnames}')
    dflt = fn.args.defaults[0]
    if not (isinstance(dflt, ast.Constant) and isinstance(dflt.value, (int, float)) and dflt.value > 0):
        raise TranslationError('central_difference: default shift is not a positive literal')
    default = ('/-- default of the `shift` parameter of `central_difference` (decimal literal of the source). -/\n'
               f'def cdDefaultShift {{K : Type}} [Div K] [Neg K] [NatCast K] : K := {lit(Fraction(ast.unparse(dflt)))}\n\n')
    return (default +
            '/-- component `i` of `central_difference`; `δ` is the vector built by the loop body\n'
            '    (`δ = zeros; δ[i] = shift`, i.e. `shift • eᵢ`). -/\n'
            f'def cdComponent {{V K : Type}} {CLS}\n'
            f'    (fxn : V → K) (coord δ : V) (shift : K) : K :=\n{b}\n')


def _rates(src):
    out = []
    # rate
    fn = get_function(src, 'rate', inside='step')
    lets, final = translate_body(fn.body, {'coord': 'V'}, calls={'self.grad_energy': (['V'], 'V', 'gradE')},
                                 special=_self_grad)
    b = '\n'.join('  ' + l for l in lets + [final])
    out.append(f'def rate {{V : Type}} [Add V] [Sub V] [Neg V]\n    (gradE : V → V) (coord : V) : V :=\n{b}\n')
    fn = get_function(src, 'climbrate', inside='step')
    if [a.arg for a in fn.args.args] != ['coord', 'τ']:
        raise TranslationError('climbrate: unexpected signature')
    lets, final = translate_body(fn.body, {'coord': 'V', 'τ': 'V'}, special=_self_grad)
    b = '\n'.join('  ' + l for l in lets + [final])
    out.append('/-- per-image climbing rate; `dot` is the row-wise contraction of the einsum '
               "`'ij,ij,il->il'`. -/\n"
               f'def climbrate {{V K : Type}} {CLS}\n'
               f'    (gradE : V → V) (dot : V → V → K) (coord τ : V) : V :=\n{b}\n')
    return '\n'.join(out)


def _self_grad(node, tr):
    if isinstance(node, ast.Call) and ast.unparse(node.func) == 'self.grad_energy' and len(node.args) == 1 \
            and not node.keywords:
        a, t = tr.tr(node.args[0])
        if t != 'V':
            raise TranslationError('grad_energy of a scalar')
        return f'(gradE {a})', 'V'
    if isinstance(node, ast.Call) and ast.unparse(node.func) == 'np.einsum':
        if len(node.args) == 4 and isinstance(node.args[0], ast.Constant) \
                and node.args[0].value.replace(' ', '') == 'ij,ij,il->il':
            a, ta = tr.tr(node.args[1])
            b, tb = tr.tr(node.args[2])
            c, tc = tr.tr(node.args[3])
            if (ta, tb, tc) != ('V', 'V', 'V'):
                raise TranslationError('einsum operands')
            return f'((dot {a} {b}) • {c})', 'V'
        raise TranslationError(f'unsupported einsum: {ast.unparse(node)}')
    return None


# ----------------------------------------------------------------------------------------
# Generated/PathSource.lean: BasePath / ISMPath / create_path as Lean definitions
# ----------------------------------------------------------------------------------------
import json as _json

PCLS = ('[Add V] [Sub V] [Neg V] [SMul K V] [Add K] [Sub K] [Mul K] [Div K] [Neg K] [NatCast K] '
        '[LT K] [DecidableLT K]')


def _lstr(x):
    return _json.dumps(x, ensure_ascii=False)


def _sig(fn):
    """(name, default as written) of every positional parameter; anything else in the signature is refused."""
    a = fn.args
    if a.vararg or a.kwarg or a.kwonlyargs or a.posonlyargs:
        raise TranslationError(f'{fn.name}: signature has */**/keyword-only parameters')
    names = [x.arg for x in a.args]
    dflt = [''] * (len(names) - len(a.defaults)) + [ast.unparse(d) for d in a.defaults]
    return list(zip(names, dflt))


def _lean_sig(name, sig):
    return f'def {name} : List (String × String) := [' + ', '.join(f'({_lstr(a)}, {_lstr(b)})' for a, b in sig) + ']\n'


def _class_fn(src, cls, name, setter=False, prop=False):
    tree = ast.parse(src)
    out = []
    for node in ast.walk(tree):
        if isinstance(node, ast.ClassDef) and node.name == cls:
            for f in node.body:
                if isinstance(f, ast.FunctionDef) and f.name == name:
                    decos = [ast.unparse(d) for d in f.decorator_list]
                    if setter and decos != [f'{name}.setter']:
                        continue
                    if not setter and any(d.endswith('.setter') for d in decos):
                        continue
                    if prop and decos != ['property']:
                        raise TranslationError(f'{cls}.{name} is not a plain property')
                    out.append(f)
    if len(out) != 1:
        raise TranslationError(f'{cls}.{name}: found {len(out)} definitions')
    return out[0]


def _raise_class(st):
    if isinstance(st, ast.Raise) and isinstance(st.exc, ast.Call) and isinstance(st.exc.func, ast.Name):
        n = st.exc.func.id
        if n == 'ValueError':
            return '.value'
        if n == 'TypeError':
            return '.type'
    raise TranslationError(f'expected raise ValueError/TypeError: {ast.unparse(st)[:60]}')


def _setter(src, attr, targets, enum):
    """`gradientfxn` / `integratorfxn` setter of BasePath -> the resolver as a Lean function (branch order of the source)."""
    fn = _class_fn(src, 'BasePath', attr, setter=True)
    if [a.arg for a in fn.args.args] != ['self', 'value']:
        raise TranslationError(f'{attr} setter: signature')
    body = strip_doc(fn.body)
    if not (len(body) == 1 and isinstance(body[0], ast.If) and ast.unparse(body[0].test) == 'isinstance(value, str)'):
        raise TranslationError(f'{attr} setter: not `if isinstance(value, str)`')
    top = body[0]
    # the chain on the name
    lines = []
    node = top.body
    while True:
        if not (len(node) == 1 and isinstance(node[0], ast.If)):
            raise TranslationError(f'{attr} setter: name chain')
        iff = node[0]
        tests = iff.test.values if isinstance(iff.test, ast.BoolOp) and isinstance(iff.test.op, ast.Or) else [iff.test]
        names = []
        for t in tests:
            if not (isinstance(t, ast.Compare) and ast.unparse(t.left) == 'value' and len(t.ops) == 1
                    and isinstance(t.ops[0], ast.Eq) and isinstance(t.comparators[0], ast.Constant)
                    and isinstance(t.comparators[0].value, str)):
                raise TranslationError(f'{attr} setter: test {ast.unparse(t)}')
            names.append(t.comparators[0].value)
        if not (len(iff.body) == 1 and isinstance(iff.body[0], ast.Assign)
                and ast.unparse(iff.body[0].targets[0]) == f'self.__{attr}'):
            raise TranslationError(f'{attr} setter: branch body')
        tgt = ast.unparse(iff.body[0].value)
        if tgt not in targets:
            raise TranslationError(f'{attr} setter: unknown function {tgt}')
        cond = ' ∨ '.join(f'value = {_lstr(n)}' for n in names)
        lines.append((cond, targets[tgt]))
        if len(iff.orelse) == 1 and isinstance(iff.orelse[0], ast.If):
            node = iff.orelse
            continue
        if len(iff.orelse) == 1 and isinstance(iff.orelse[0], ast.Raise):
            unknown = _raise_class(iff.orelse[0])
            break
        raise TranslationError(f'{attr} setter: end of the name chain')
    rest = top.orelse
    if not (len(rest) == 1 and isinstance(rest[0], ast.If) and ast.unparse(rest[0].test) == 'callable(value)'
            and len(rest[0].body) == 1 and ast.unparse(rest[0].body[0]) == f'self.__{attr} = value'
            and len(rest[0].orelse) == 1):
        raise TranslationError(f'{attr} setter: callable branch')
    other = _raise_class(rest[0].orelse[0])
    chain = ''
    for cond, t in lines:
        chain += f'if {cond} then .ok {t} else '
    chain += f'.error {unknown}'
    cap = attr[0].upper() + attr[1:]
    return (f'def genResolve{cap} : FxnArg → Except PyErr {enum}\n'
            f'  | .name value => {chain}\n'
            f'  | .callable => .ok .user\n'
            f'  | .other => .error {other}\n')


def _default_fxnarg(text, what):
    node = ast.parse(text, mode='eval').body
    if isinstance(node, ast.Constant) and isinstance(node.value, str):
        return f'.name {_lstr(node.value)}'
    raise TranslationError(f'default of {what} is not a name: {text}')


def _default_kwarg(text):
    node = ast.parse(text, mode='eval').body
    if isinstance(node, ast.Constant) and node.value is None:
        return '.none'
    if isinstance(node, ast.Dict) or ast.unparse(node) == 'dict()':
        return '.dict'
    raise TranslationError(f'default of gradientkwargs: {text}')


def _init(src):
    fn = _class_fn(src, 'BasePath', '__init__')
    sig = _sig(fn)
    d = dict(sig)
    for k in ('gradientfxn', 'gradientkwargs', 'integratorfxn', 'energyfxn', 'coord'):
        if k not in d:
            raise TranslationError(f'__init__: no parameter {k}')
    out = [_lean_sig('genSigInit', sig)]
    out.append(f'def genDefaultGradientfxn : FxnArg := {_default_fxnarg(d["gradientfxn"], "gradientfxn")}\n')
    out.append(f'def genDefaultIntegratorfxn : FxnArg := {_default_fxnarg(d["integratorfxn"], "integratorfxn")}\n')
    out.append(f'def genDefaultGradientkwargs : KwArg := {_default_kwarg(d["gradientkwargs"])}\n')
    order, lines = [], []
    for st in strip_doc(fn.body):
        u = ast.unparse(st)
        if u == 'if isinstance(coord, BasePath):\n    coord = coord.coord':
            continue
        if u == 'self.coord = coord':
            order.append('coord')
        elif isinstance(st, ast.If) and ast.unparse(st.test) == 'callable(energyfxn)' and len(st.body) == 1 \
                and ast.unparse(st.body[0]) == 'self.__energyfxn = energyfxn' and len(st.orelse) == 1:
            order.append('energyfxn')
            lines.append(f'if ¬ a.energyCallable then throw {_raise_class(st.orelse[0])}')
        elif u == 'self.gradientfxn = gradientfxn':
            order.append('gradientfxn')
            lines.append('let g ← genResolveGradientfxn (a.gradientfxn.getD genDefaultGradientfxn)')
        elif u == 'self.integratorfxn = integratorfxn':
            order.append('integratorfxn')
            lines.append('let i ← genResolveIntegratorfxn (a.integratorfxn.getD genDefaultIntegratorfxn)')
        elif isinstance(st, ast.If) and ast.unparse(st.test) == 'gradientkwargs is None':
            if not (len(st.body) == 1 and ast.unparse(st.body[0]) == 'self.__gradientkwargs = {}'
                    and len(st.orelse) == 1 and isinstance(st.orelse[0], ast.If)
                    and ast.unparse(st.orelse[0].test) == 'isinstance(gradientkwargs, dict)'
                    and len(st.orelse[0].body) == 1
                    and ast.unparse(st.orelse[0].body[0]) == 'self.__gradientkwargs = gradientkwargs'
                    and len(st.orelse[0].orelse) == 1):
                raise TranslationError('__init__: gradientkwargs handling')
            order.append('gradientkwargs')
            lines.append('let fresh ← (match a.gradientkwargs.getD genDefaultGradientkwargs with\n'
                         '    | .none => (pure true : Except PyErr Bool)\n'
                         '    | .dict => pure false\n'
                         f'    | .other => throw {_raise_class(st.orelse[0].orelse[0])})')
        else:
            raise TranslationError(f'__init__: unsupported statement {u[:70]}')
    if sorted(order) != sorted(['coord', 'energyfxn', 'gradientfxn', 'integratorfxn', 'gradientkwargs']):
        raise TranslationError(f'__init__: fields stored {order}')
    out.append('def genInitOrder : List String := [' + ', '.join(_lstr(o) for o in order) + ']\n')
    out.append('def genInitPath (a : CtorArgs) : Except PyErr (GradChoice × IntegChoice × Bool) := do\n'
               + '\n'.join('  ' + l for l in lines) + '\n  pure (g, i, fresh)\n')
    return out, [n for n, _ in sig]


def _carried(call, init_names, who):
    """the fields a `ISMPath(newcoord, self.energyfxn, …)` call hands on from `self`."""
    if not (isinstance(call, ast.Call) and ast.unparse(call.func) == 'ISMPath'):
        raise TranslationError(f'{who}: the new path is not built by ISMPath(...)')
    got = {}
    params = init_names[1:]          # without self
    for k, a in enumerate(call.args):
        got[params[k]] = ast.unparse(a)
    for kw in call.keywords:
        if kw.arg is None:
            raise TranslationError(f'{who}: ** in the constructor call')
        got[kw.arg] = ast.unparse(kw.value)
    return [n for n in params if got.get(n) == f'self.{n}'], got


def _create_path(src, init_names):
    fn = get_function(src, 'create_path')
    sig = _sig(fn)
    d = dict(sig)
    out = [_lean_sig('genSigCreatePath', sig)]
    st_default = ast.parse(d.get('style', 'None'), mode='eval').body
    if not (isinstance(st_default, ast.Constant) and isinstance(st_default.value, str)):
        raise TranslationError('create_path: default style')
    out.append(f'def genDefaultStyle : String := {_lstr(st_default.value)}\n')
    for k, gen in (('gradientfxn', 'genDefaultGradientfxn'), ('integratorfxn', 'genDefaultIntegratorfxn')):
        out.append(f'def genCreate{k[0].upper()}{k[1:]}Default : FxnArg := {_default_fxnarg(d[k], k)}\n')
    out.append(f'def genCreateGradientkwargsDefault : KwArg := {_default_kwarg(d["gradientkwargs"])}\n')
    body = strip_doc(fn.body)
    if not (len(body) == 1 and isinstance(body[0], ast.If)):
        raise TranslationError('create_path: body')
    iff = body[0]
    tests = iff.test.values if isinstance(iff.test, ast.BoolOp) and isinstance(iff.test.op, ast.Or) else [iff.test]
    styles = []
    for t in tests:
        if not (isinstance(t, ast.Compare) and ast.unparse(t.left) == 'style' and isinstance(t.ops[0], ast.Eq)
                and isinstance(t.comparators[0], ast.Constant) and isinstance(t.comparators[0].value, str)):
            raise TranslationError(f'create_path: test {ast.unparse(t)}')
        styles.append(t.comparators[0].value)
    if not (len(iff.body) == 1 and isinstance(iff.body[0], ast.Return) and len(iff.orelse) == 1):
        raise TranslationError('create_path: branches')
    call = iff.body[0].value
    if not (isinstance(call, ast.Call) and ast.unparse(call.func) == 'ISMPath'):
        raise TranslationError('create_path: does not build an ISMPath')
    got = {}
    params = init_names[1:]
    for k, a in enumerate(call.args):
        got[params[k]] = ast.unparse(a)
    for kw in call.keywords:
        got[kw.arg] = ast.unparse(kw.value)
    for n in params:
        if got.get(n) != n:
            raise TranslationError(f'create_path: argument {n} is not handed on to ISMPath ({got.get(n)})')
    cond = ' ∨ '.join(f'style = {_lstr(x)}' for x in styles)
    out.append('def genCreatePath (a : CtorArgs) : Except PyErr (GradChoice × IntegChoice × Bool) :=\n'
               '  let style := a.style.getD genDefaultStyle\n'
               f'  if {cond} then genInitPath a else .error {_raise_class(iff.orelse[0])}\n')
    return out


def _default_expr(src, name):
    """`default_timestep` / `default_tolerance` -> a Lean expression in the number of images `n`."""
    fn = _class_fn(src, 'ISMPath', name, prop=True)
    body = strip_doc(fn.body)
    if not (len(body) == 1 and isinstance(body[0], ast.Return)):
        raise TranslationError(f'{name}: body is not one return')

    def tr(node):
        if isinstance(node, ast.Constant) and isinstance(node.value, (int, float)) and not isinstance(node.value, bool):
            return lit(Fraction(ast.unparse(node)))
        if isinstance(node, ast.BinOp) and isinstance(node.op, ast.Mult):
            return f'({tr(node.left)} * {tr(node.right)})'
        if isinstance(node, ast.BinOp) and isinstance(node.op, ast.Pow) and ast.unparse(node.left) == 'len(self.coord)':
            e = node.right
            if isinstance(e, ast.UnaryOp) and isinstance(e.op, ast.USub) and isinstance(e.operand, ast.Constant) \
                    and isinstance(e.operand.value, int) and 1 <= e.operand.value <= 8:
                prod = ' * '.join(['((n : Nat) : K)'] * e.operand.value)
                return f'({lit(Fraction(1))} / ({prod}))'
            raise TranslationError(f'{name}: power {ast.unparse(node)}')
        if isinstance(node, ast.Call) and ast.unparse(node.func) in ('np.min', 'np.max') and len(node.args) == 1 \
                and not node.keywords and isinstance(node.args[0], ast.List) and len(node.args[0].elts) == 2:
            a, b = (tr(x) for x in node.args[0].elts)
            if ast.unparse(node.func) == 'np.min':
                return f'(if {b} < {a} then {b} else {a})'
            return f'(if {a} < {b} then {b} else {a})'
        raise TranslationError(f'{name}: unsupported expression {ast.unparse(node)}')

    cap = ''.join(w.capitalize() for w in name.split('_'))
    return (f'def gen{cap} {{K : Type}} [Mul K] [Div K] [NatCast K] [LT K] [DecidableLT K] (n : Nat) : K :=\n'
            f'  {tr(body[0].value)}\n')


class _ListTr:
    """array expressions of ISMPath over lists of rows / numbers / flags."""

    def __init__(self, env):
        self.env = dict(env)

    def _slice(self, x, sl):
        lo, hi = sl.lower, sl.upper
        if sl.step is not None:
            raise TranslationError('slice with a step')
        out = x
        if hi is not None:
            if isinstance(hi, ast.UnaryOp) and isinstance(hi.op, ast.USub) and isinstance(hi.operand, ast.Constant) \
                    and isinstance(hi.operand.value, int) and 1 <= hi.operand.value <= 3:
                for _ in range(hi.operand.value):
                    out = f'(List.dropLast {out})'
            elif isinstance(hi, ast.Name) and self.env.get(hi.id) == 'N':
                if lo is not None:
                    raise TranslationError('slice [a:name]')
                return f'(List.take {hi.id} {out})'
            else:
                raise TranslationError(f'slice end {ast.unparse(hi)}')
        if lo is not None:
            if isinstance(lo, ast.Constant) and isinstance(lo.value, int) and 0 <= lo.value <= 3:
                if lo.value:
                    out = f'(List.drop {lo.value} {out})'
            else:
                raise TranslationError(f'slice start {ast.unparse(lo)}')
        return out

    def tr(self, node):
        u = ast.unparse(node)
        if isinstance(node, ast.Name):
            if node.id not in self.env:
                raise TranslationError(f'unknown name {node.id}')
            return node.id, self.env[node.id]
        if isinstance(node, ast.Attribute) and node.attr == 'coord' and isinstance(node.value, ast.Name) \
                and self.env.get(node.value.id) == 'P':
            return f'{node.value.id}.coord', 'LV'
        if isinstance(node, ast.Subscript) and isinstance(node.slice, ast.Slice):
            x, t = self.tr(node.value)
            if t not in ('LV', 'LK', 'LB', 'LN'):
                raise TranslationError(f'slice of {t}: {u}')
            return self._slice(x, node.slice), t
        if isinstance(node, ast.Attribute) and node.attr == 'T' and isinstance(node.value, ast.BinOp) \
                and isinstance(node.value.op, ast.Div):
            num, den = node.value.left, node.value.right
            if isinstance(num, ast.Attribute) and num.attr == 'T':
                x, t = self.tr(num.value)
                if t == 'LV' and ast.unparse(den) in (f'np.linalg.norm({ast.unparse(num.value)}, axis=-1)',
                                                      f'np.linalg.norm({ast.unparse(num.value)}, axis=1)'):
                    return f'(Np.rowUnit dot sqrt {x})', 'LV'
            raise TranslationError(f'unsupported normalisation {u}')
        if isinstance(node, ast.Call) and ast.unparse(node.func) == 'np.linalg.norm':
            if len(node.args) == 1 and len(node.keywords) == 1 and node.keywords[0].arg == 'axis' \
                    and ast.unparse(node.keywords[0].value) in ('-1', '1'):
                x, t = self.tr(node.args[0])
                if t == 'LV':
                    return f'(Np.rowNorms dot sqrt {x})', 'LK'
            raise TranslationError(f'unsupported norm {u}')
        if isinstance(node, ast.Call) and isinstance(node.func, ast.Attribute) and node.func.attr == 'max' \
                and not node.args and not node.keywords:
            x, t = self.tr(node.func.value)
            if t == 'LK':
                return f'(Np.maxOf {x})', 'K'
            raise TranslationError(f'max of {t}')
        if isinstance(node, ast.BinOp) and isinstance(node.op, (ast.Add, ast.Sub)):
            a, ta = self.tr(node.left)
            b, tb = self.tr(node.right)
            op = '+' if isinstance(node.op, ast.Add) else '-'
            if ta == tb == 'LV':
                return f'(Np.ew (fun a b => a {op} b) {a} {b})', 'LV'
            raise TranslationError(f'{u}: operands {ta}, {tb}')
        if isinstance(node, ast.BinOp) and isinstance(node.op, ast.Div):
            a, ta = self.tr(node.left)
            b, tb = self.tr(node.right)
            if ta == tb == 'K':
                return f'({a} / {b})', 'K'
            raise TranslationError(f'{u}: operands {ta}, {tb}')
        if isinstance(node, ast.BinOp) and isinstance(node.op, (ast.BitAnd, ast.BitOr)):
            a, ta = self.tr(node.left)
            b, tb = self.tr(node.right)
            if ta == tb == 'LB':
                f = 'and' if isinstance(node.op, ast.BitAnd) else 'or'
                return f'(Np.ew {f} {a} {b})', 'LB'
            raise TranslationError(f'{u}: operands {ta}, {tb}')
        if isinstance(node, ast.Compare) and len(node.ops) == 1:
            a, ta = self.tr(node.left)
            b, tb = self.tr(node.comparators[0])
            rel = {ast.Gt: 'decide (b < a)', ast.GtE: 'decide (¬ a < b)', ast.Lt: 'decide (a < b)',
                   ast.LtE: 'decide (¬ b < a)'}.get(type(node.ops[0]))
            if rel is None:
                raise TranslationError(f'comparison {u}')
            if ta == tb == 'LK':
                return f'(Np.ew (fun a b => {rel}) {a} {b})', 'LB'
            raise TranslationError(f'{u}: operands {ta}, {tb}')
        if isinstance(node, ast.Call) and ast.unparse(node.func) == 'np.hstack' and len(node.args) == 1 \
                and isinstance(node.args[0], ast.List):
            parts = []
            for e in node.args[0].elts:
                if isinstance(e, ast.Constant) and isinstance(e.value, bool):
                    parts.append('[true]' if e.value else '[false]')
                else:
                    x, t = self.tr(e)
                    if t != 'LB':
                        raise TranslationError(f'hstack of {t}')
                    parts.append(x)
            return '(' + ' ++ '.join(parts) + ')', 'LB'
        raise TranslationError(f'unsupported array expression: {u[:80]}')


def _unittangent(src):
    fn = _class_fn(src, 'ISMPath', 'unittangent', prop=True)
    tr = _ListTr({'self': 'P'})
    lets = []
    parts = {}
    filled = None
    final = None
    for st in strip_doc(fn.body):
        u = ast.unparse(st)
        if final is not None:
            raise TranslationError('unittangent: statement after return')
        if isinstance(st, ast.Return):
            x, t = tr.tr(st.value)
            if t != 'LV':
                raise TranslationError('unittangent: result')
            final = x
        elif u == 'τ = np.empty_like(self.coord)':
            filled = 'τ'
        elif isinstance(st, ast.Assign) and len(st.targets) == 1 and isinstance(st.targets[0], ast.Name):
            name = st.targets[0].id
            if filled == name and name not in tr.env:
                if sorted(parts) != ['first', 'last', 'mid']:
                    raise TranslationError(f'unittangent: τ used before rows 0, 1:-1, -1 are set ({sorted(parts)})')
                lets.append(f'let {name} := {parts["first"]} ++ {parts["mid"]} ++ {parts["last"]}')
                tr.env[name] = 'LV'
            x, t = tr.tr(st.value)
            lets.append(f'let {name} := {x}')
            tr.env[name] = t
        elif isinstance(st, ast.Assign) and isinstance(st.targets[0], ast.Subscript) \
                and ast.unparse(st.targets[0].value) == filled:
            key = ast.unparse(st.targets[0].slice)
            v = st.value
            if key in ('0', '-1'):
                if not (isinstance(v, ast.Subscript) and isinstance(v.value, ast.Name) and tr.env.get(v.value.id) == 'LV'
                        and ast.unparse(v.slice) in ('0', '-1')):
                    raise TranslationError(f'unittangent: {u}')
                pick = 'List.head?' if ast.unparse(v.slice) == '0' else 'List.getLast?'
                parts['first' if key == '0' else 'last'] = f'({pick} {v.value.id}).toList'
            elif key == '1:-1':
                x, t = tr.tr(v)
                if t != 'LV':
                    raise TranslationError(f'unittangent: {u}')
                parts['mid'] = x
            else:
                raise TranslationError(f'unittangent: rows {key} assigned')
        else:
            raise TranslationError(f'unittangent: unsupported statement {u[:70]}')
    if final is None:
        raise TranslationError('unittangent: no return')
    body = '\n'.join('  ' + l for l in lets + [final])
    return ('/-- `ISMPath.unittangent` for a string of at least two images (`self` = the path). -/\n'
            f'def genUnitTangent {{V K : Type}} {PCLS}\n'
            f'    (dot : V → V → K) (sqrt : K → K) (self : Path V K) : List V :=\n{body}\n')


def _arccoord(src):
    fn = _class_fn(src, 'BasePath', 'arccoord', prop=True)
    body = [ast.unparse(x) for x in strip_doc(fn.body)]
    st = strip_doc(fn.body)
    if len(st) != 5 or body[0] != 's = np.zeros(len(self.coord))' or body[2] != 'α = np.empty(len(self.coord))' \
            or body[4] != 'return α':
        raise TranslationError('arccoord: statements')
    a = st[1]
    if not (isinstance(a, ast.Assign) and ast.unparse(a.targets[0]) == 's[1:]'):
        raise TranslationError('arccoord: s[1:] = …')
    x, t = _ListTr({'self': 'P'}).tr(a.value)
    if t != 'LK':
        raise TranslationError('arccoord: segment lengths')
    loop = st[3]
    if not (isinstance(loop, ast.For) and ast.unparse(loop.target) == 'i' and ast.unparse(loop.iter) == 'range(len(α))'
            and len(loop.body) == 1 and isinstance(loop.body[0], ast.Assign)
            and ast.unparse(loop.body[0].targets[0]) == 'α[i]'):
        raise TranslationError('arccoord: loop')
    v = loop.body[0].value
    m = ast.unparse(v)
    if m != 's[:i + 1].sum()':
        raise TranslationError(f'arccoord: α[i] = {m}')
    return ('/-- `BasePath.arccoord` (`s = zeros(n); s[1:] = …` as `zeros(n)[:1] ++ …`). -/\n'
            f'def genArccoord {{V K : Type}} {PCLS}\n'
            '    (dot : V → V → K) (sqrt : K → K) (self : Path V K) : List K :=\n'
            f'  let s := (List.replicate self.coord.length (((0 : Nat) : K))).take 1 ++ {x}\n'
            '  (List.range self.coord.length).map (fun i => Np.sumOf (List.take (i + 1) s))\n')


def _reads(src, ism):
    out = []
    for name, call, lean in (('energy', 'self.energyfxn(coord)', 'coord.map self.energyfxn'),
                             ('grad_energy', 'self.gradientfxn(self.energyfxn, coord, **self.gradientkwargs)',
                              'coord.map (fun x => self.gradientfxn self.energyfxn x self.gradientkwargs)')):
        fn = _class_fn(src, 'BasePath', name)
        if _sig(fn) != [('self', ''), ('coord', 'None')]:
            raise TranslationError(f'{name}: signature')
        body = [ast.unparse(x) for x in strip_doc(fn.body)]
        if body != ['if coord is None:\n    coord = self.coord', f'return {call}']:
            raise TranslationError(f'{name}: body {body}')
        cap = ''.join(w.capitalize() for w in name.split('_'))
        typ = 'List K' if name == 'energy' else 'List V'
        out.append(f'def gen{cap} {{V K : Type}} (self : Path V K) (coord : Option (List V)) : {typ} :=\n'
                   f'  let coord := coord.getD self.coord\n  {lean}\n')
    fn = _class_fn(src, 'BasePath', 'force', prop=True)
    body = [ast.unparse(x) for x in strip_doc(fn.body)]
    if body != ["return np.einsum('ij,ij->i', self.grad_energy(), self.unittangent)"]:
        raise TranslationError(f'force: body {body}')
    out.append(f'def genForce {{V K : Type}} {PCLS}\n    (dot : V → V → K) (sqrt : K → K) (self : Path V K) : List K :=\n'
               '  Np.ew dot (genGradEnergy self none) (genUnitTangent dot sqrt self)\n')
    # the range check of interpolate_path
    fn = _class_fn(ism, 'ISMPath', 'interpolate_path')
    st = strip_doc(fn.body)
    if not (ast.unparse(st[0]) == 'α = self.arccoord' and isinstance(st[1], ast.If) and len(st[1].body) == 1
            and isinstance(st[1].body[0], ast.Raise) and not st[1].orelse):
        raise TranslationError('interpolate_path: range check')
    if _raise_class(st[1].body[0]) != '.value':
        raise TranslationError('interpolate_path: the refusal is not a ValueError')

    def tr(node):
        if isinstance(node, ast.BinOp) and isinstance(node.op, ast.BitOr):
            return f'({tr(node.left)} || {tr(node.right)})'
        if isinstance(node, ast.BoolOp) and isinstance(node.op, ast.Or):
            return '(' + ' || '.join(tr(v) for v in node.values) + ')'
        if isinstance(node, ast.Call) and ast.unparse(node.func) == 'np.any' and len(node.args) == 1 \
                and isinstance(node.args[0], ast.Compare) and len(node.args[0].ops) == 1 \
                and ast.unparse(node.args[0].left) == 'arccoord':
            c = node.args[0]
            rhs = ast.unparse(c.comparators[0])
            if rhs == '0':
                b = '((0 : Nat) : K)'
            elif rhs == 'α[-1]':
                b = '(α.getLastD ((0 : Nat) : K))'
            else:
                raise TranslationError(f'interpolate_path: bound {rhs}')
            rel = {ast.Lt: f'decide (a < {b})', ast.Gt: f'decide ({b} < a)', ast.LtE: f'decide (¬ {b} < a)',
                   ast.GtE: f'decide (¬ a < {b})'}.get(type(c.ops[0]))
            if rel is None:
                raise TranslationError('interpolate_path: comparison')
            return f'Np.anyOf arccoord (fun a => {rel})'
        raise TranslationError(f'interpolate_path: range test {ast.unparse(node)}')

    out.append('/-- the test under which `interpolate_path` raises ValueError. -/\n'
               'def genInterpRefuses {K : Type} [NatCast K] [LT K] [DecidableLT K] (α arccoord : List K) : Bool :=\n'
               f'  {tr(st[1].test)}\n')
    return out


def _only_prints(stmts):
    for st in stmts:
        if not (isinstance(st, ast.Expr) and isinstance(st.value, ast.Call) and ast.unparse(st.value.func) == 'print'):
            return False
    return True


def _step_call(node, env, sig_step):
    """`<path>.step(timestep=…, climbindex=…)` -> the model's whole step."""
    if not (isinstance(node, ast.Call) and isinstance(node.func, ast.Attribute) and node.func.attr == 'step'
            and isinstance(node.func.value, ast.Name) and env.get(node.func.value.id) == 'P'):
        raise TranslationError(f'not a step call: {ast.unparse(node)}')
    params = [n for n, _ in sig_step][1:]
    got = {}
    for k, a in enumerate(node.args):
        got[params[k]] = ast.unparse(a)
    for kw in node.keywords:
        if kw.arg is None:
            raise TranslationError('** in a step call')
        got[kw.arg] = ast.unparse(kw.value)
    if set(got) - {'timestep', 'climbindex'} or 'timestep' not in got:
        raise TranslationError(f'step call arguments {got}')
    if env.get(got['timestep']) != 'K':
        raise TranslationError(f'step call: timestep = {got["timestep"]}')
    climb = '[]'
    if 'climbindex' in got:
        if env.get(got['climbindex']) != 'LN':
            raise TranslationError(f'step call: climbindex = {got["climbindex"]}')
        climb = got['climbindex']
    return f'(Path.stringStep {node.func.value.id} dot sqrt respace {got["timestep"]} {climb})'


def _relax(src, sig_step):
    fn = _class_fn(src, 'ISMPath', 'relax')
    sig = _sig(fn)
    if [n for n, _ in sig] != ['self', 'relaxsteps', 'climbsteps', 'timestep', 'tolerance', 'climbpoints', 'verbose']:
        # the order is pinned by gen_sigRelax_eq_model; the names are needed to type the body
        if sorted(n for n, _ in sig) != sorted(['self', 'relaxsteps', 'climbsteps', 'timestep', 'tolerance', 'climbpoints',
                                                'verbose']):
            raise TranslationError(f'relax: parameters {sig}')
    env = {'self': 'P', 'relaxsteps': 'N', 'climbsteps': 'N', 'climbpoints': 'N', 'timestep': 'OK', 'tolerance': 'OK'}
    lets, defs = [], []
    nloop = 0
    measures = []
    final = None
    for st in strip_doc(fn.body):
        u = ast.unparse(st)
        if final is not None:
            raise TranslationError('relax: statement after return')
        if isinstance(st, ast.If) and ast.unparse(st.test) in ('timestep is None', 'tolerance is None'):
            name = ast.unparse(st.test).split()[0]
            want = f'{name} = self.default_{name}'
            if not (len(st.body) == 1 and ast.unparse(st.body[0]) == want and not st.orelse and env[name] == 'OK'):
                raise TranslationError(f'relax: default of {name}')
            cap = name.capitalize()
            lets.append(f'let {name} := {name}.getD (genDefault{cap} self.coord.length)')
            env[name] = 'K'
        elif isinstance(st, ast.If) and 'verbose' in ast.unparse(st.test):
            if not (_only_prints(st.body) and not st.orelse):
                raise TranslationError(f'relax: a verbose block does more than print')
        elif u in ('s = time.time()', 'e = time.time()'):
            continue
        elif u == 'currentpath = self':
            lets.append('let currentpath := self')
            env['currentpath'] = 'P'
        elif isinstance(st, ast.For):
            if not (isinstance(st.target, ast.Name) and isinstance(st.iter, ast.Call) and ast.unparse(st.iter.func) == 'range'
                    and len(st.iter.args) == 1 and isinstance(st.iter.args[0], ast.Name)
                    and env.get(st.iter.args[0].id) == 'N' and not st.orelse):
                raise TranslationError(f'relax: loop header {ast.unparse(st.iter)}')
            if env.get('timestep') != 'K' or env.get('tolerance') != 'K' or env.get('currentpath') != 'P':
                raise TranslationError('relax: loop before the defaults are set')
            nloop += 1
            count = st.iter.args[0].id
            benv = dict(env)
            blets = []
            tr = _ListTr(benv)
            done = None
            for b in st.body:
                bu = ast.unparse(b)
                if done is not None:
                    raise TranslationError('relax: statement after the convergence test in a loop')
                if isinstance(b, ast.Assign) and len(b.targets) == 1 and isinstance(b.targets[0], ast.Name):
                    name = b.targets[0].id
                    if isinstance(b.value, ast.Call) and isinstance(b.value.func, ast.Attribute) and b.value.func.attr == 'step':
                        blets.append(f'let {name} := {_step_call(b.value, benv, sig_step)}')
                        benv[name] = 'P'
                    elif isinstance(b.value, ast.Name) and benv.get(b.value.id) == 'P':
                        blets.append(f'let {name} := {b.value.id}')
                        benv[name] = 'P'
                    else:
                        tr.env = benv
                        x, t = tr.tr(b.value)
                        if t != 'K':
                            raise TranslationError(f'relax: {bu[:60]}')
                        blets.append(f'let {name} := {x}')
                        benv[name] = 'K'
                elif isinstance(b, ast.If) and len(b.body) == 1 and isinstance(b.body[0], ast.Break) and not b.orelse:
                    t = b.test
                    if not (isinstance(t, ast.Compare) and len(t.ops) == 1 and isinstance(t.left, ast.Name)
                            and isinstance(t.comparators[0], ast.Name) and benv.get(t.left.id) == 'K'
                            and benv.get(t.comparators[0].id) == 'K'):
                        raise TranslationError(f'relax: convergence test {ast.unparse(t)}')
                    a_, b_ = t.left.id, t.comparators[0].id
                    rel = {ast.Lt: f'decide ({a_} < {b_})', ast.LtE: f'decide (¬ {b_} < {a_})',
                           ast.Gt: f'decide ({b_} < {a_})', ast.GtE: f'decide (¬ {a_} < {b_})'}.get(type(t.ops[0]))
                    if rel is None:
                        raise TranslationError(f'relax: convergence test {ast.unparse(t)}')
                    done = (a_, rel)
                else:
                    raise TranslationError(f'relax: unsupported statement in a loop: {bu[:70]}')
            if done is None or benv.get('currentpath') != 'P':
                raise TranslationError('relax: loop without convergence test')
            climbarg = ' (climbindex : List Nat)' if env.get('climbindex') == 'LN' else ''
            climbuse = ' climbindex' if climbarg else ''
            defs.append(f'/-- body of loop {nloop} of `relax` (`for i in range({count})`): the string after the pass, the measure, '
                        f'whether the loop breaks. -/\n'
                        f'def genLoopBody{nloop} {{V K : Type}} {PCLS}\n'
                        f'    (dot : V → V → K) (sqrt : K → K) (respace : List Nat → List V → List V) (timestep tolerance : K)'
                        f'{climbarg}\n    (currentpath : Path V K) : Path V K × K × Bool :=\n'
                        + '\n'.join('  ' + l for l in blets) + f'\n  (currentpath, {done[0]}, {done[1]})\n')
            lets.append(f'let r{nloop} := genLoop (genLoopBody{nloop} dot sqrt respace timestep tolerance{climbuse}) {count} currentpath')
            lets.append(f'let currentpath := r{nloop}.1')
            measures.append(f'r{nloop}.2')
        elif u == 'energy = currentpath.energy()' and env.get('currentpath') == 'P':
            lets.append('let energy := currentpath.energy')
            env['energy'] = 'LK'
        elif isinstance(st, ast.Assign) and u.startswith('maxmap = '):
            x, t = _ListTr(env).tr(st.value)
            if t != 'LB':
                raise TranslationError('relax: maxmap')
            lets.append(f'let maxmap := {x}')
            env['maxmap'] = 'LB'
        elif u == 'climbindex = np.arange(len(maxmap))[maxmap]' and env.get('maxmap') == 'LB':
            lets.append('let climbindex := Np.whereTrue maxmap')
            env['climbindex'] = 'LN'
        elif isinstance(st, ast.If) and u.startswith('if maxmap.sum()'):
            t = st.test
            if not (ast.unparse(t) == 'maxmap.sum() > climbpoints' and len(st.body) == 1 and not st.orelse
                    and isinstance(st.body[0], ast.Assign) and ast.unparse(st.body[0].targets[0]) == 'climbindex'
                    and env.get('climbindex') == 'LN'):
                raise TranslationError(f'relax: {u[:70]}')
            x, tt = _ListTr(env).tr(st.body[0].value)
            if tt != 'LN':
                raise TranslationError(f'relax: {u[:70]}')
            lets.append(f'let climbindex := if climbpoints < Np.countTrue maxmap then {x} else climbindex')
        elif isinstance(st, ast.Return) and isinstance(st.value, ast.Name) and env.get(st.value.id) == 'P':
            final = st.value.id
        else:
            raise TranslationError(f'relax: unsupported statement {u[:70]}')
    if final is None or nloop != 2 or env.get('climbindex') != 'LN':
        raise TranslationError('relax: not two loops with a choice of climbing images in between')
    out = [_lean_sig('genSigRelax', sig)]
    out += defs
    out.append('/-- `ISMPath.relax` (printing left out): the string returned, the measures of the steps of the first loop, the\n'
               '    climbing images, the measures of the second loop. -/\n'
               f'def genRelax {{V K : Type}} {PCLS}\n'
               '    (self : Path V K) (dot : V → V → K) (sqrt : K → K) (respace : List Nat → List V → List V)\n'
               '    (relaxsteps climbsteps : Nat) (timestep tolerance : Option K) (climbpoints : Nat) : RelaxResult V K :=\n'
               + '\n'.join('  ' + l for l in lets)
               + f'\n  ⟨{final}, {measures[0]}, climbindex, {measures[1]}⟩\n')
    return out


_GENLOOP = """/-- `for i in range(n): <body>; if …: break` with the body a function of the string:
    the string reached and the measures of the passes made. -/
def genLoop {P K : Type} (body : P → P × K × Bool) : Nat → P → P × List K
  | 0, p => (p, [])
  | n + 1, p =>
    let r := body p
    if r.2.2 then (r.1, [r.2.1]) else
      let t := genLoop body n r.1
      (t.1, r.2.1 :: t.2)
"""


def _step_pins(src, init_names):
    fn = _class_fn(src, 'ISMPath', 'step')
    sig = _sig(fn)
    out = [_lean_sig('genSigStep', sig)]
    body = strip_doc(fn.body)
    pins = []
    carried = None
    seen_default = False
    icoord_calls = []
    for st in body:
        u = ast.unparse(st)
        if isinstance(st, ast.FunctionDef):
            continue          # rate / climbrate: Generated/Integrators.lean
        if u == 'if timestep is None:\n    timestep = self.default_timestep':
            seen_default = True
        elif u == 'icoord = self.integratorfxn(rate, self.coord, timestep)':
            icoord_calls.append('rate')
        elif isinstance(st, ast.If) and ast.unparse(st.test) == 'climbindex is not None':
            want = ['climbindex = aslist(climbindex)', 'τ = self.unittangent',
                    'icoord[climbindex] = self.integratorfxn(climbrate, self.coord[climbindex], timestep, τ=τ[climbindex])']
            if [ast.unparse(x) for x in st.body] != want or [ast.unparse(x) for x in st.orelse] != ['climbindex = []']:
                raise TranslationError('step: the climbing branch is not the pinned one')
            icoord_calls.append('climbrate')
        elif u.startswith('intpath = '):
            carried, got = _carried(st.value, init_names, 'step')
            if got.get('coord') != 'icoord':
                raise TranslationError('step: intpath is not built from icoord')
        elif isinstance(st, ast.For):
            pins.append(f'for {ast.unparse(st.target)} in {ast.unparse(st.iter)}:')
            pins += [ast.unparse(x) for x in st.body]
        else:
            pins.append(u)
    if not seen_default or icoord_calls != ['rate', 'climbrate'] or carried is None:
        raise TranslationError('step: default time step / the two integrator calls / intpath not found')
    out.append('def genStepCarried : List String := [' + ', '.join(_lstr(x) for x in carried) + ']\n')
    out.append('def genStepSegmentPins : List String :=\n  [' + ',\n   '.join(_lstr(x) for x in pins) + ']\n')
    # interpolate_path
    fn = _class_fn(src, 'ISMPath', 'interpolate_path')
    rets = [x for x in strip_doc(fn.body) if isinstance(x, ast.Return)]
    if len(rets) != 1:
        raise TranslationError('interpolate_path: returns')
    carried2, got2 = _carried(rets[0].value, init_names, 'interpolate_path')
    out.append('def genInterpCarried : List String := [' + ', '.join(_lstr(x) for x in carried2) + ']\n')
    return out, sig


def _path_source():
    base = cm.source('atomman/mep/BasePath.py')
    ism = cm.source('atomman/mep/ISMPath.py')
    init = cm.source('atomman/mep/__init__.py')
    parts = ['/- GENERATED by harness/props/c20.py from atomman/mep/{BasePath,ISMPath,__init__}.py — do not edit. -/',
             'import Atomman.C20', 'namespace Atomman.C20.Src', 'open Atomman.C20', '']
    parts.append(_setter(base, 'gradientfxn', {'gradient.central_difference': '.centralDifference'}, 'GradChoice'))
    parts.append(_setter(base, 'integratorfxn', {'integrator.rungekutta': '.rungekutta', 'integrator.euler': '.euler'},
                         'IntegChoice'))
    ini, init_names = _init(base)
    parts += ini
    parts += _create_path(init, init_names)
    parts.append(_default_expr(ism, 'default_timestep'))
    parts.append(_default_expr(ism, 'default_tolerance'))
    parts.append(_unittangent(ism))
    parts.append(_arccoord(base))
    parts += _reads(base, ism)
    pins, sig_step = _step_pins(ism, init_names)
    parts += pins
    parts.append(_GENLOOP)
    parts += _relax(ism, sig_step)
    parts.append('end Atomman.C20.Src\n')
    return '\n'.join(parts)


def translate():
    parts = ['/- GENERATED by harness/props/c20.py from atomman/mep — do not edit. -/',
             'namespace Atomman.Gen', '']
    parts.append(_integrator(cm.source('atomman/mep/integrator/euler.py'), 'euler'))
    parts.append(_integrator(cm.source('atomman/mep/integrator/rungekutta.py'), 'rungekutta'))
    parts.append(_central_difference(cm.source('atomman/mep/gradient/central_difference.py')))
    parts.append(_rates(cm.source('atomman/mep/ISMPath.py')))
    parts.append('end Atomman.Gen\n')
    return {'Integrators': '\n'.join(parts), 'PathSource': _path_source()}


# ----------------------------------------------------------------------------------------
# shared: polynomial test energies (exact oracle), path objects driven as a state machine
# ----------------------------------------------------------------------------------------
EPS = 2.0 ** -52


def _fl(x):
    """float of an exact value; values beyond the double range become +-inf."""
    try:
        return float(x)
    except OverflowError:
        return float('inf') if x > 0 else float('-inf')


class Poly:
    """f(v) = sum_k (a_k v_k + b_k v_k^2 + c_k v_k^3) + m v_0 v_last  (the Lean `testFxn`): vectorised over
    leading axes for the implementation, exact over Fractions for the oracle."""

    def __init__(self, a, b, c, m):
        self.a, self.b, self.c, self.m = [float(v) for v in a], [float(v) for v in b], [float(v) for v in c], float(m)
        self.dim = len(self.a)
        np = _np()
        self._an, self._bn, self._cn = np.array(self.a), np.array(self.b), np.array(self.c)
        self.ncalls = 0

    def spec(self):
        return {'a': self.a, 'b': self.b, 'c': self.c, 'm': self.m}

    def wire(self):
        return ' '.join(map(cm.frs, (self.a, self.b, self.c))) + ' ' + cm.fr(self.m)

    def __call__(self, v):
        np = _np()
        self.ncalls += 1
        v = np.asarray(v)
        return (self._an * v + self._bn * v * v + self._cn * v * v * v).sum(axis=-1) + self.m * v[..., 0] * v[..., -1]

    def grad(self, v):
        np = _np()
        v = np.asarray(v, dtype=float)
        g = self._an + 2 * self._bn * v + 3 * self._cn * v * v
        g[..., 0] += self.m * v[..., -1]
        g[..., -1] += self.m * v[..., 0]
        return g

    def exact(self, x):
        x = [Fraction(t) for t in x]
        return sum(Fraction(a) * t + Fraction(b) * t * t + Fraction(c) * t ** 3
                   for a, b, c, t in zip(self.a, self.b, self.c, x)) + Fraction(self.m) * x[0] * x[-1]

    def exact_grad(self, x):
        x = [Fraction(t) for t in x]
        g = [Fraction(a) + 2 * Fraction(b) * t + 3 * Fraction(c) * t * t for a, b, c, t in zip(self.a, self.b, self.c, x)]
        g[0] += Fraction(self.m) * x[-1]
        g[-1] += Fraction(self.m) * x[0]
        return g

    def exact_cd(self, x, s):
        """what a central difference with step s returns in exact arithmetic: the gradient plus c_i s^2."""
        s = Fraction(s)
        return [g + Fraction(c) * s * s for g, c in zip(self.exact_grad(x), self.c)]

    def absbound(self, x, s=0.0):
        """sum of the absolute values of the terms of f on the box |v_k| <= |x_k| + |s|."""
        r = [abs(_fl(t)) + abs(float(s)) for t in x]
        if not all(t < 1e90 for t in r):
            return float('inf')
        return sum(abs(a) * t + abs(b) * t * t + abs(c) * t ** 3 for a, b, c, t in zip(self.a, self.b, self.c, r)) \
            + abs(self.m) * r[0] * r[-1] + 1e-300

    def lipschitz(self, radius):
        """bound of the operator norm of the Hessian on |v_k| <= radius."""
        return max(2 * abs(b) + 6 * abs(c) * radius for b, c in zip(self.b, self.c)) + 2 * abs(self.m)


def _gen_poly(rng, dim, tame=False):
    hi = 1 if tame else 2
    return Poly([cm.dyadic(rng, -2, 2, 2) for _ in range(dim)], [cm.dyadic(rng, -hi, hi, 2) for _ in range(dim)],
                [cm.dyadic(rng, -hi, hi, 2) for _ in range(dim)], cm.dyadic(rng, -2, 2, 1))


def _analytic_gradient(fxn, coord, scale=1.0, half=1.0):
    """a user-supplied gradientfxn with two keyword settings: analytic gradient of the energy function it is handed,
    times scale * half (the path hands {'scale': 2 k, 'half': 0.5} for the setting k: every keyword must arrive)."""
    return (scale * half) * fxn.grad(coord)


def _degenerate(rows):
    """consecutive images coincide, or two successive unit differences cancel (tangent 0/0)."""
    rows = [[Fraction(v) for v in r] for r in rows]
    dif = [[b - a for a, b in zip(r0, r1)] for r0, r1 in zip(rows, rows[1:])]
    for v in dif:
        if not any(v):
            return True
    for v, w in zip(dif, dif[1:]):
        vw = sum(a * b for a, b in zip(v, w))
        if vw < 0 and vw * vw == sum(a * a for a in v) * sum(b * b for b in w):
            return True
    return False


def _gen_rows(rng, n, dim, span=2.0, bits=3):
    for _ in range(200):
        if dim == 1:
            xs = sorted({cm.dyadic(rng, -span, span, bits) for _ in range(4 * n)})
            if len(xs) < n:
                continue
            xs = rng.sample(xs, n)
            xs.sort(reverse=rng.random() < 0.5)
            rows = [[x] for x in xs]
        else:
            rows = [[cm.dyadic(rng, -span, span, bits) for _ in range(dim)] for _ in range(n)]
        if not _degenerate(rows):
            return rows
    raise RuntimeError('no non-degenerate image set found')


class Shadow:
    """what the harness knows the object's state to be (independent of the implementation)."""

    def __init__(self, coord, poly, g, kw, integ):
        self.coord, self.poly, self.g, self.integ = [list(r) for r in coord], poly, g, integ
        self.kwbox = [kw]       # the settings live in a dictionary object; two paths handed the same dictionary share it
        self.shared = False
        self.handed = None      # the object handed over as `coord` (the caller keeps it and may edit it later)
        self.alt = None         # the images if edits made through another reference to the same array are seen

    @property
    def kw(self):
        return self.kwbox[0]

    @kw.setter
    def kw(self, v):
        self.kwbox[0] = v

    def copy(self):
        return Shadow(self.coord, self.poly, self.g, self.kw, self.integ)

    @property
    def n(self):
        return len(self.coord)

    def spec(self):
        return {'coord': self.coord, 'poly': self.poly.spec(), 'g': self.g, 'kw': self.kw, 'integ': self.integ}

    # -- exact oracle ------------------------------------------------------------------
    def shift(self):
        return 1e-5 if self.kw is None else self.kw

    def grad_exact(self, x):
        """(gradient the object must report at x, absolute rounding bound of the double evaluation)."""
        mag = self.poly.absbound(x, self.shift() if self.g == 'cd' else 0.0)
        if self.g == 'cd':
            s = self.shift()
            want = self.poly.exact_cd(x, Fraction('1e-5') if self.kw is None else s)
            tol = 16 * EPS * mag / abs(s)
        else:
            k = Fraction(1 if self.kw is None else self.kw)
            want = [k * v for v in self.poly.exact_grad(x)]
            tol = 16 * EPS * mag * max(1.0, abs(_fl(k))) * (1 + max(abs(_fl(t)) for t in x))
        return want, tol + 4 * EPS * max(abs(_fl(w)) for w in want)

    def integrate_exact(self, x, h, tau=None):
        """one integrator step of one image (exact in the rate; tau: climbing with this unit tangent).
        Returns (new row, first-order bound of the double evaluation)."""
        h = Fraction(h)
        x = [Fraction(t) for t in x]
        worst = [0.0, 0.0]   # largest gradient tolerance, largest radius seen

        def rate(y):
            g, tol = self.grad_exact(y)
            worst[0] = max(worst[0], tol)
            worst[1] = max(worst[1], max(abs(_fl(t)) for t in y))
            if tau is None:
                return [-v for v in g]
            gt = sum(a * b for a, b in zip(g, tau))
            return [-v + 2 * gt * t for v, t in zip(g, tau)]

        def axpy(y, k, v):
            return [a + k * b for a, b in zip(y, v)]
        if self.integ == 'euler':
            new = axpy(x, h, rate(x))
            stages = 1
        else:
            k1 = [h * v for v in rate(x)]
            k2 = [h * v for v in rate(axpy(x, Fraction(1, 2), k1))]
            k3 = [h * v for v in rate(axpy(x, Fraction(1, 2), k2))]
            k4 = [h * v for v in rate(axpy(x, 1, k3))]
            new = [a + b / 6 + c / 3 + d / 3 + e / 6 for a, b, c, d, e in zip(x, k1, k2, k3, k4)]
            stages = 4
        try:
            hl = abs(_fl(h)) * self.poly.lipschitz(worst[1] + abs(self.shift())) * (3 if tau is not None else 1)
            amp = (1 + hl) ** (stages - 1)
            tol = stages * amp * abs(_fl(h)) * (3 * worst[0] if tau is not None else worst[0]) \
                + 8 * EPS * (1 + max(abs(_fl(t)) for t in new) + worst[1])
        except OverflowError:
            tol = float('inf')
        if not tol < 1e300:
            tol = float('inf')
        return new, tol


def _geometry(rows):
    """arc coordinates, unit tangents of an image list in double arithmetic from the exact coordinates."""
    rows = [[float(v) for v in r] for r in rows]
    dif = [[b - a for a, b in zip(r0, r1)] for r0, r1 in zip(rows, rows[1:])]
    nrm = [math.sqrt(math.fsum(v * v for v in d)) for d in dif]
    arc = [math.fsum(nrm[:i]) for i in range(len(rows))]
    if len(rows) < 2:
        return arc, None
    nan = float('nan')
    u = [[(v / n if n else nan) for v in d] for d, n in zip(dif, nrm)]
    raw = [u[0]] + [[a + b for a, b in zip(u[i - 1], u[i])] for i in range(1, len(u))] + [u[-1]]
    tau = []
    for r in raw:
        n = math.sqrt(math.fsum(v * v for v in r))
        tau.append([(v / n if n else nan) for v in r])
    return arc, tau


def _tangent_condition(rows):
    """1 / smallest norm of an un-normalised tangent (amplification of rounding in the unit tangent)."""
    rows = [[float(v) for v in r] for r in rows]
    dif = [[b - a for a, b in zip(r0, r1)] for r0, r1 in zip(rows, rows[1:])]
    nrm = [math.sqrt(math.fsum(t * t for t in d)) for d in dif]
    if not all(nrm):
        return float('inf')
    u = [[v / n for v in d] for d, n in zip(dif, nrm)]
    k = 1.0
    for a, b in zip(u, u[1:]):
        n = math.sqrt(math.fsum((x + y) ** 2 for x, y in zip(a, b)))
        if n == 0:
            return float('inf')
        k = max(k, 2.0 / n)
    scale = max(1.0, max(abs(v) for r in rows for v in r))
    return k * max(1.0, scale / min(nrm))


_READS = ('coord', 'energy', 'grad', 'arc', 'tangent', 'force')
_COORD_FORMS = ['array', 'array', 'array', 'list', 'tuple', 'float32', 'fortran', 'strided', 'readonly']
_GNAMES = {'cd': [None, 'cdiff', 'central_difference', 'function'], 'an': ['callable']}
_INAMES = {'euler': ['euler', 'function'], 'rk': [None, 'rk', 'rungekutta', 'function']}


class Runner:
    """drives real path objects and their shadows through an operation list."""

    def __init__(self):
        self.objs, self.shadows = [], []
        self.cur = None
        self.lineages = []          # per independently constructed path: index of the object that now stands for it
        self.first_handed = self.first_kwdict = self.first_box = self.last_kwdict = None

    def sync(self, idx):
        """after an edit made through another reference to the array the path was built from: the path's images are the
        old ones or the edited ones as a whole -> 'same' | 'alt' | ('neither', images now)."""
        np = _np()
        sh = self.shadows[idx]
        if sh.alt is None:
            return 'same'
        alt, sh.alt = sh.alt, None
        try:
            now = np.array(self.objs[idx].coord, dtype=float)
        except Exception as e:  # noqa
            return ('neither', f'raised {type(e).__name__}')
        if now.shape == (sh.n, sh.poly.dim) and np.array_equal(now, np.array(sh.coord, dtype=float)):
            return 'same'
        if now.shape == np.array(alt, dtype=float).shape and np.array_equal(now, np.array(alt, dtype=float)):
            sh.coord = alt
            return 'alt'
        return ('neither', now.tolist())

    def peers(self, sh):
        """shadows of the other live paths that were handed the same coordinate object as `sh`."""
        return [(i, self.shadows[i]) for i in self.lineages
                if self.shadows[i] is not sh and sh.handed is not None and self.shadows[i].handed is sh.handed]

    # -- implementation side -------------------------------------------------------------
    def _gfx_value(self, g, name):
        from atomman.mep.gradient import central_difference
        if g == 'an':
            return _analytic_gradient
        return central_difference if name == 'function' else name

    def _ifx_value(self, integ, name):
        from atomman.mep.integrator import euler, rungekutta
        if name == 'function':
            return euler if integ == 'euler' else rungekutta
        return name

    @staticmethod
    def _kwdict(g, kw):
        if kw is None:
            return {}
        return {'shift': kw} if g == 'cd' else {'scale': 2.0 * kw, 'half': 0.5}

    @staticmethod
    def _coord_value(rows, how):
        """the image list in the container `how`: nested list / tuple, float64 / float32 / integer array, Fortran-ordered,
        a strided view of a larger array, a read-only array (forms that cannot hold the values fall back to a list)."""
        np = _np()
        a = np.array(rows, dtype=float)
        if how == 'array':
            return a
        if how in ('intlist', 'intarray'):
            if all(float(v).is_integer() for r in rows for v in r):
                return [[int(v) for v in r] for r in rows] if how == 'intlist' else a.astype(np.int64)
            return [list(r) for r in rows]
        if how == 'float32':
            return a.astype(np.float32) if bool((a.astype(np.float32).astype(float) == a).all()) else [list(r) for r in rows]
        if how == 'tuple':
            return tuple(tuple(r) for r in rows)
        if how == 'fortran' and a.ndim == 2:
            return np.asfortranarray(a)
        if how == 'strided' and a.ndim == 2:
            big = np.full((2 * a.shape[0] + 1, 2 * a.shape[1] + 1), 7.25)
            big[1::2, 1::2] = a
            return big[1::2, 1::2]
        if how == 'readonly':
            a.setflags(write=False)
            return a
        return [list(r) for r in rows]

    def build(self, sh, via='create_path', gname=None, iname=None, kwform='dict', coord_as='array', handed=None,
              kwdict=None, call='kw'):
        """construct the real path for the shadow `sh`. `handed`: an object handed over before (the same array for two
        paths); `kwdict`: a settings dictionary handed over before; `call`: keyword or positional arguments."""
        np = _np()
        import atomman.mep as mep
        coord = self._coord_value(sh.coord, coord_as) if handed is None else handed
        sh.handed = coord
        kwargs = {}
        gv = self._gfx_value(sh.g, gname)
        if gv is not None:
            kwargs['gradientfxn'] = gv
        iv = self._ifx_value(sh.integ, iname)
        if iv is not None:
            kwargs['integratorfxn'] = iv
        if kwdict is not None:
            kwargs['gradientkwargs'] = kwdict
        elif sh.kw is not None or kwform == 'dict':
            kwargs['gradientkwargs'] = self._kwdict(sh.g, sh.kw)
        elif kwform == 'none':
            kwargs['gradientkwargs'] = None
        self.last_kwdict = kwargs.get('gradientkwargs')
        if call == 'pos':
            # (coord, energyfxn, [style,] gradientfxn, gradientkwargs, integratorfxn) in the documented order
            tail = [kwargs.get('gradientfxn', 'cdiff'), kwargs.get('gradientkwargs'), kwargs.get('integratorfxn', 'rk')]
            if via == 'create_path':
                return mep.create_path(coord, sh.poly, 'ISM', *tail)
            if via == 'create_path_style':
                return mep.create_path(coord, sh.poly, 'improved_string_method', *tail)
            return mep.ISMPath(coord, sh.poly, *tail)
        if via == 'create_path':
            return mep.create_path(coord, sh.poly, **kwargs)
        if via == 'create_path_style':
            return mep.create_path(coord, sh.poly, style='improved_string_method', **kwargs)
        return mep.ISMPath(coord, sh.poly, **kwargs)

    @staticmethod
    def observe(p, order=None, keep=None):
        """read the path's attributes in the given order (default: all six); afterwards the coordinates once more and the
        settings dictionary (reads must not write). `keep` receives the very objects the reads returned."""
        np = _np()
        out = {}
        reads = {'coord': lambda: p.coord, 'energy': lambda: p.energy(), 'grad': lambda: p.grad_energy(),
                 'arc': lambda: p.arccoord, 'tangent': lambda: p.unittangent, 'force': lambda: p.force}
        with np.errstate(all='ignore'):
            for name in (order or _READS):
                try:
                    raw = reads[name]()
                    out[name] = np.array(raw, dtype=float)
                    if keep is not None:
                        keep[name] = raw
                except Exception as e:  # noqa: the implementation's exception is an observation
                    out[name] = ('raise', type(e).__name__)
            try:
                out['coord_after'] = np.array(p.coord, dtype=float)
                out['kwargs'] = dict(p.gradientkwargs)
            except Exception as e:  # noqa
                out['coord_after'] = ('raise', type(e).__name__)
        return out

    def do(self, op):
        """perform `op` on the current real object, update the shadow; returns the op's own result."""
        np = _np()
        kind = op['op']
        if kind == 'new':
            share = op.get('share') or {}
            first = self.shadows[self.lineages[0]] if self.lineages else None
            handed = kwdict = None
            coord = op['coord']
            if first is not None and share.get('coord') and isinstance(self.first_handed, (list, tuple, np.ndarray)):
                handed = self.first_handed          # the very same object for both paths
                coord = np.array(handed, dtype=float).tolist()
            sh = Shadow(coord, Poly(**op['poly']), op['g'], op['kw'], op['integ'])
            if first is not None and share.get('kw') and isinstance(self.first_kwdict, dict):
                kwdict = self.first_kwdict
                sh.kwbox = self.first_box           # settings of both paths live in one dictionary
            try:
                p = self.build(sh, op.get('via', 'create_path'), op.get('gname'), op.get('iname'),
                               op.get('kwform', 'dict'), op.get('coord_as', 'array'), handed=handed, kwdict=kwdict,
                               call=op.get('call', 'kw'))
            except Exception as e:  # noqa
                return ('raise', type(e).__name__, str(e)[:200])
            if not self.lineages:
                self.first_handed, self.first_kwdict, self.first_box = sh.handed, self.last_kwdict, sh.kwbox
            self.objs.append(p)
            self.shadows.append(sh)
            self.cur = len(self.objs) - 1
            self.lineages.append(self.cur)
            return 'ok'
        if kind == 'switch':
            self.cur = self.lineages[op['to'] % len(self.lineages)]
            return 'ok'
        p, sh = self.objs[self.cur], self.shadows[self.cur]
        try:
            with np.errstate(all='ignore'):
                return self._do(op, kind, p, sh)
        except Exception as e:  # noqa
            return ('raise', type(e).__name__, str(e)[:200])

    def _do(self, op, kind, p, sh):
        np = _np()
        if kind == 'obs':
            return self.observe(p, order=op.get('order'))
        if kind == 'scribble':
            # read, then overwrite the arrays that were returned (all but .coord, which is the path's own array by design)
            keep = {}
            res = self.observe(p, order=op.get('order'), keep=keep)
            for name, raw in keep.items():
                if name != 'coord' and isinstance(raw, np.ndarray) and raw.flags.writeable and raw.dtype.kind == 'f':
                    raw[...] = raw * -3.0 + 7.5
            return res
        if kind == 'set_coord':
            value = self._coord_value(op['coord'], op.get('as', 'array'))
            p.coord = value
            sh.coord = [list(r) for r in op['coord']]
            sh.shared = False
            sh.handed, sh.alt = value, None
            return 'ok'
        if kind == 'edit_row':
            if p.coord.dtype.kind != 'f' or not p.coord.flags.writeable:
                return 'skipped'        # in-place edit of an integer array would truncate: not an operation of the model
            p.coord[op['i']] = op['row']
            sh.coord[op['i']] = list(op['row'])
            for _, other in self.peers(sh):     # another path built from the same array may or may not see the edit
                base = other.alt if other.alt is not None else other.coord
                if len(base) == len(sh.coord):
                    other.alt = [list(r) for r in base]
                    other.alt[op['i']] = list(op['row'])
            return 'ok'
        if kind == 'caller_edit':
            # the caller edits the object it handed over as `coord`: the path either sees the whole edit or none of it
            h = sh.handed
            if isinstance(h, np.ndarray):
                if not h.flags.writeable or h.dtype.kind != 'f' or h.shape != (sh.n, sh.poly.dim):
                    return 'skipped'
                h[op['i']] = op['row']
            elif isinstance(h, list) and len(h) == sh.n:
                h[op['i']] = list(op['row'])
            else:
                return 'skipped'
            for _, other in [(self.cur, sh)] + self.peers(sh):
                base = other.alt if other.alt is not None else other.coord
                other.alt = [list(r) for r in base]
                other.alt[op['i']] = [float(v) for v in op['row']]
            return 'ok'
        if kind == 'set_gfx':
            p.gradientfxn = self._gfx_value(op['g'], op.get('name'))
            d = p.gradientkwargs
            d.clear()
            d.update(self._kwdict(op['g'], op['kw']))
            sh.g, sh.kw = op['g'], op['kw']
            return 'ok'
        if kind == 'set_kw':
            d = p.gradientkwargs
            d.clear()
            d.update(self._kwdict(sh.g, op['kw']))
            sh.kw = op['kw']
            return 'ok'
        if kind == 'set_integ':
            p.integratorfxn = self._ifx_value(op['integ'], op.get('name'))
            sh.integ = op['integ']
            return 'ok'
        if kind == 'bad_set':
            attr = op['attr']
            if attr == 'energyfxn':
                p.energyfxn = sh.poly
            elif attr == 'gradientkwargs':
                p.gradientkwargs = {}
            elif attr == 'gradientfxn:str':
                p.gradientfxn = 'forward_difference'
            elif attr == 'integratorfxn:str':
                p.integratorfxn = 'verlet'
            elif attr == 'gradientfxn:type':
                p.gradientfxn = 3
            elif attr == 'integratorfxn:type':
                p.integratorfxn = 0.5
            return 'accepted'
        if kind in ('energy_at', 'grad_at'):
            pts = self._coord_value(op['pts'], op.get('as', 'array'))
            keep = np.array(pts, dtype=float) if isinstance(pts, np.ndarray) else None
            out = np.array((p.energy if kind == 'energy_at' else p.grad_energy)(pts), dtype=float)
            if keep is not None and not np.array_equal(np.array(pts, dtype=float), keep):
                return ('raise', 'InputModified', f'the coordinate array handed to {kind} was changed: {keep.tolist()} -> '
                        f'{np.array(pts, dtype=float).tolist()}')
            return out
        if kind == 'defaults':
            return np.array([p.default_timestep, p.default_tolerance], dtype=float)
        if kind == 'interp':
            arc = np.array(p.arccoord, dtype=float)
            w = op['where']
            L = arc[-1]
            a = {'knots': arc.copy(), 'reversed': arc[::-1].copy(), 'mid': np.concatenate([arc[:1], (arc[1:] + arc[:-1]) / 2, arc[-1:]]),
                 'below': np.array([-0.25 * L, L / 2]), 'above': np.array([L / 2, L * 1.25]),
                 'hair-below': np.array([-L * 2.0 ** -30, L / 2]), 'hair-above': np.array([L / 2, np.nextafter(L, np.inf)])}[w]
            keep = a.copy()
            q = p.interpolate_path(a)
            return {'coord': np.array(q.coord, dtype=float), 'type': type(q).__name__, 'arc': keep,
                    'arc_untouched': bool(np.array_equal(a, keep)),
                    'same': bool(q.energyfxn is p.energyfxn and q.gradientfxn is p.gradientfxn
                                 and q.integratorfxn is p.integratorfxn and dict(q.gradientkwargs) == dict(p.gradientkwargs))}
        if kind in ('step', 'relax'):
            import contextlib
            import io
            h = _h_form(op['h'], op.get('h_as'))
            pos = op.get('call') == 'pos'
            spied = []
            if kind == 'step':
                climb = _climb_form(op.get('climb'), op.get('climb_as'), op.get('climb_neg'), len(p.coord))
                # the arc coordinates step hands to interpolate_path (its `newα`) together with those of the integrated images
                cls = type(p)
                orig = cls.interpolate_path

                def spy(self_, arc):
                    try:
                        spied.append((np.array(self_.arccoord, dtype=float), np.array(arc, dtype=float)))
                    except Exception:  # noqa
                        pass
                    return orig(self_, arc)
                cls.interpolate_path = spy
                try:
                    if pos:
                        args = [None if op.get('hdefault') else h] + ([] if climb is None else [climb])
                        q = p.step(*args)
                    else:
                        kw = {} if op.get('hdefault') else {'timestep': h}
                        if climb is not None:
                            kw['climbindex'] = climb
                        q = p.step(**kw)
                finally:
                    cls.interpolate_path = orig
            else:
                vkw = {} if op.get('verbose', False) is None else {'verbose': False}
                with contextlib.redirect_stdout(io.StringIO()):
                    if pos:         # (relaxsteps, climbsteps, timestep, tolerance, climbpoints, verbose) in the documented order
                        args = [op['r'], op['c'], None if op.get('hdefault') else h, op.get('tol', 0.0)]
                        if op.get('cp') is not None:
                            args.append(op['cp'])
                            if vkw:
                                args.append(False)
                                vkw = {}
                        q = p.relax(*args, **vkw)
                    else:
                        hkw = {} if op.get('hdefault') else {'timestep': h}
                        q = p.relax(relaxsteps=op['r'], climbsteps=op['c'], tolerance=op.get('tol', 0.0),
                                    **vkw, **hkw, **({} if op.get('cp') is None else {'climbpoints': op['cp']}))
            res = {'coord': np.array(q.coord, dtype=float), 'type': type(q).__name__,
                   'shares_memory': bool(q is not p and np.shares_memory(q.coord, p.coord)),
                   'respace': spied[-1] if len(spied) == 1 else None,
                   'same_energyfxn': q.energyfxn is p.energyfxn, 'same_gradientfxn': q.gradientfxn is p.gradientfxn,
                   'same_integratorfxn': q.integratorfxn is p.integratorfxn,
                   'kwargs': dict(q.gradientkwargs)}
            if q is p:
                res['index'], res['same_object'] = self.cur, True
                return res
            nsh = sh.copy()
            nsh.coord = res['coord'].tolist()
            if q.gradientkwargs is p.gradientkwargs:
                nsh.kwbox = sh.kwbox        # the returned path was handed the same settings dictionary
            self.objs.append(q)
            self.shadows.append(nsh)
            res['index'] = len(self.objs) - 1
            if op.get('adopt'):
                self.lineages = [res['index'] if i == self.cur else i for i in self.lineages]
                self.cur = res['index']
            return res
        raise ValueError('unknown op ' + kind)


def _h_form(h, form):
    """the time step as Python float (default), numpy float64 / float32 scalar, 0-d array, Python int."""
    np = _np()
    if form == 'np64':
        return np.float64(h)
    if form == 'np32' and float(np.float32(h)) == h:
        return np.float32(h)
    if form == '0d':
        return np.array(h)
    if form == 'int' and float(h).is_integer():
        return int(h)
    return h


def _climb_form(climb, form, neg=None, n=None):
    """the climbing images as int, numpy integer, list, tuple, integer array (also empty); `neg`: every index (True) or the
    first one of several ('first') given by its NEGATIVE equivalent i - n, counted from the end of the n images."""
    np = _np()
    if climb is not None and neg and n:
        if isinstance(climb, int):
            climb = climb - n
        else:
            climb = [(i - n) if (neg is True or k == 0) else i for k, i in enumerate(climb)]
    if climb is None or form is None:
        return climb
    lst = [climb] if isinstance(climb, int) else list(climb)
    if form == 'int' and len(lst) == 1:
        return int(lst[0])
    if form == 'npint' and len(lst) == 1:
        return np.int64(lst[0])
    if form == 'tuple':
        return tuple(lst)
    if form == 'array':
        return np.array(lst, dtype=int)
    if form == 'array32':
        return np.array(lst, dtype=np.int32)
    return lst


def _gen_sequence(rng, nops, tier_big=False):
    """one or two constructions followed by `nops` operations (each followed by a read of the object in a random order)."""
    dim = rng.choice([1, 2, 2, 2, 3, 3, 4])
    poly = _gen_poly(rng, dim, tame=True)

    def gen_kw(g):
        if g == 'cd':
            return rng.choice([None, None, 2.0 ** -10, 2.0 ** -6, 2.0 ** -8, 1e-3, 2.0 ** -12, -2.0 ** -9])
        return rng.choice([None, 1.0, 0.5, -1.0, 2.0, 0.75])

    def gen_obs():
        order = list(_READS)
        how = rng.random()
        if how < 0.5:
            rng.shuffle(order)
        if how < 0.15:
            order = order[:rng.randint(1, 3)]       # only some attributes are read this time
        return {'op': 'scribble' if rng.random() < 0.2 else 'obs', 'order': order}

    def gen_new(st, share=None):
        ints = rng.random() < 0.15
        n, g = st['n'], st['g']
        return {'op': 'new', 'via': rng.choice(['create_path', 'ISMPath', 'create_path_style']),
                'coord': _gen_rows(rng, n, dim, span=4.0, bits=0) if ints else _gen_rows(rng, n, dim),
                'coord_as': rng.choice(['intlist', 'intarray']) if ints else rng.choice(_COORD_FORMS), 'poly': poly.spec(), 'g': g,
                'gname': rng.choice(_GNAMES[g]), 'kw': gen_kw(g), 'kwform': rng.choice(['dict', 'none', 'absent']),
                'integ': st['integ'], 'iname': rng.choice(_INAMES[st['integ']]), 'call': rng.choice(['kw', 'kw', 'pos']),
                'share': share}
    sts = [{'n': rng.choice([1, 2, 2, 2, 2, 3, 3, 4, 5, 6, 7, 8]), 'g': rng.choice(['cd', 'cd', 'an']), 'integ': rng.choice(['euler', 'rk', 'rk']),
            'dictshared': False}]
    ops = [gen_new(sts[0]), gen_obs()]
    if rng.random() < 0.3:
        # a second path, built from the very same coordinate object and/or settings dictionary, or with nothing handed
        # over for the settings in either (each must then have its own)
        share = {'coord': rng.random() < 0.6, 'kw': rng.random() < 0.3}
        st = dict(sts[0]) if (share['coord'] or share['kw']) else {'n': rng.choice([2, 3, 4]), 'g': sts[0]['g'], 'integ': rng.choice(['euler', 'rk']), 'dictshared': False}
        op = gen_new(st, share)
        if share['kw']:
            op['kw'], op['g'] = ops[0]['kw'], ops[0]['g']
            ops[0]['kwform'] = 'dict'
            op['gname'] = rng.choice(_GNAMES[op['g']])
            st['dictshared'] = sts[0]['dictshared'] = True
        elif rng.random() < 0.6:
            op['kw'] = ops[0]['kw'] = None
            op['kwform'] = ops[0]['kwform'] = 'absent'
        sts.append(st)
        ops += [op, gen_obs()]
    k = len(sts) - 1
    for _ in range(nops):
        if len(sts) > 1 and rng.random() < 0.35:
            k = 1 - k
            ops += [{'op': 'switch', 'to': k}, gen_obs()]
        st = sts[k]
        n, g = st['n'], st['g']
        r = rng.random()
        if r < 0.25:
            how = rng.random()
            if how < 0.4 or n < 2:
                n0 = n
                n = rng.choice([n, n, max(2, n - 1), n + 1, 2, 6, 8]) if how > 0.2 else n
                n = max(1, min(9, n))
                ints = rng.random() < 0.15
                rows = _gen_rows(rng, n, dim, span=4.0, bits=0) if ints else _gen_rows(rng, n, dim)
                if n != n0 and rng.random() < 0.5:
                    ops.append({'op': 'defaults'})      # the defaults follow the number of images: before and after
                ops.append({'op': 'set_coord', 'coord': rows, 'as': rng.choice(['intlist', 'intarray']) if ints else rng.choice(_COORD_FORMS),
                            'how': 'fresh'})
                if n != n0:
                    ops.append({'op': 'defaults'})
                st['n'] = n
            else:
                ops.append({'op': 'set_coord', 'how': 'perturb', 'as': rng.choice(_COORD_FORMS),
                            'i': rng.randrange(n), 'j': rng.randrange(dim),
                            'delta': rng.choice([2.0 ** -3, -2.0 ** -3, 2.0 ** -6, 1.0, -0.5, 2.0 ** -20])})
        elif r < 0.36 and n >= 1:
            ops.append({'op': 'edit_row', 'i': rng.randrange(n), 'how': 'perturb', 'j': rng.randrange(dim),
                        'delta': rng.choice([2.0 ** -3, -2.0 ** -3, 2.0 ** -5, 1.0, -0.5])})
        elif r < 0.42 and n >= 1:
            ops.append({'op': 'caller_edit', 'i': rng.randrange(n), 'how': 'perturb', 'j': rng.randrange(dim),
                        'delta': rng.choice([2.0 ** -3, -2.0 ** -3, 2.0 ** -5, 1.0, -0.5])})
        elif r < 0.52 and not st['dictshared']:
            g = rng.choice(['cd', 'an'])
            ops.append({'op': 'set_gfx', 'g': g, 'name': rng.choice([x for x in _GNAMES[g] if x is not None]),
                        'kw': gen_kw(g)})
            st['g'] = g
        elif r < 0.62:
            ops.append({'op': 'set_kw', 'kw': gen_kw(g)})
        elif r < 0.68:
            integ = rng.choice(['euler', 'rk'])
            ops.append({'op': 'set_integ', 'integ': integ, 'name': rng.choice([x for x in _INAMES[integ] if x is not None])})
        elif r < 0.72:
            ops.append({'op': 'bad_set', 'attr': rng.choice(['energyfxn', 'gradientkwargs', 'gradientfxn:str',
                                                            'integratorfxn:str', 'gradientfxn:type', 'integratorfxn:type'])})
        elif r < 0.79:
            pts = [[cm.dyadic(rng, -2, 2, 3) for _ in range(dim)] for _ in range(rng.choice([1, 2, 3]))]
            ops.append({'op': rng.choice(['energy_at', 'grad_at']), 'pts': pts, 'as': rng.choice(_COORD_FORMS)})
        elif r < 0.81:
            ops.append({'op': 'defaults'})
        elif r < 0.85 and n >= 2:
            ops.append({'op': 'interp', 'where': rng.choice(['knots', 'knots', 'reversed', 'mid', 'mid', 'below', 'above', 'hair-below', 'hair-above'])})
        elif r < 0.92:
            climb = None
            if n >= 3 and rng.random() < 0.5:
                i = rng.randrange(1, n - 1)
                climb = rng.choice([i, [i]]) if n < 5 or rng.random() < 0.7 else sorted({i, rng.randrange(1, n - 1)})
            elif rng.random() < 0.15:
                climb = []
            op = {'op': 'step', 'hrel': rng.choice([0.5, 0.25, 0.125, 0.3]), 'climb': climb,
                  'climb_as': rng.choice([None, None, 'int', 'npint', 'tuple', 'array', 'array32']),
                  'climb_neg': rng.choice([None, None, True, True, 'first']),
                  'h_as': rng.choice([None, None, 'np64', 'np32', '0d']), 'call': rng.choice(['kw', 'kw', 'pos']),
                  'adopt': rng.random() < 0.5, 'hdefault': rng.random() < 0.15}
            if rng.random() < 0.08:
                op.update(hzero=True, hdefault=False)       # a step of length zero: only the re-spacing
            ops.append(op)
        else:
            ops.append({'op': 'relax', 'r': rng.randint(0, 2), 'c': rng.choice([0, 1, 1, 2]), 'hrel': rng.choice([0.25, 0.125]),
                        'tolrel': rng.choice([0.0, 0.5, 0.9, 1.5, 4.0]), 'cp': rng.choice([None, None, None, 0, 1, 2, 3]),
                        'h_as': rng.choice([None, None, 'np64', 'np32', '0d']), 'call': rng.choice(['kw', 'kw', 'pos']),
                        'verbose': rng.choice([False, False, None]),
                        'adopt': rng.random() < 0.5, 'hdefault': rng.random() < 0.15})
        ops.append(gen_obs())
    return ops


def _stable_step(sh):
    """1 / (Lipschitz bound of the rate on the box around the images): time steps below it are in the stable range."""
    radius = max(abs(v) for r in sh.coord for v in r) + 1.0
    k = abs(sh.kw) if (sh.g == 'an' and sh.kw is not None) else 1.0
    return 1.0 / (sh.poly.lipschitz(radius) * max(k, 1e-3) + 1e-3)


def _resolve(op, sh):
    """fill in operations that are relative to the object's current state (perturbations, time steps as a fraction of
    the stable limit)."""
    if 'hrel' in op and 'h' not in op:
        op = dict(op)
        h = op['hrel'] * _stable_step(sh)
        op['h'] = 2.0 ** math.floor(math.log2(h)) if op['hrel'] != 0.3 else float(f'{h:.2g}')
        if op.get('hdefault'):      # timestep not given: the path's default 0.05 min(0.2, 1/N)
            op['h'] = float(Fraction(1, 20) * min(Fraction(1, 5), Fraction(1, max(sh.n, 1))))
        if op.get('hzero'):
            op['h'] = 0.0
        if op['op'] == 'relax' and 'tol' not in op:
            op['tol'] = 0.0
            if op.get('tolrel') and (sh.n == 2 or op['tolrel'] in (0.5, 0.9)):
                g0 = max(math.sqrt(sum(_fl(v) ** 2 for v in sh.grad_exact(r)[0])) for r in sh.coord)
                if 0 < g0 < 1e6:
                    op['tol'] = float(f'{op["tolrel"] * g0:.3g}')
    if op.get('how') == 'perturb':
        op = dict(op)
        i, j = op['i'] % sh.n, op['j']
        if op['op'] == 'set_coord':
            rows = [list(r) for r in sh.coord]
            rows[i][j] += op['delta']
            if _degenerate(rows):
                rows[i][j] += 0.5 + abs(op['delta'])
            op['coord'] = rows
        else:
            row = list(sh.coord[i])
            row[j] += op['delta']
            rows = [list(r) for r in sh.coord]
            rows[i] = row
            if _degenerate(rows):
                row[j] += 0.5 + abs(op['delta'])
            op['i'], op['row'] = i, row
        op['how'] = 'resolved'
    return op


_BAD_SET = {'energyfxn': ('AttributeError', 'err:op'), 'gradientkwargs': ('AttributeError', 'err:op'),
            'gradientfxn:str': ('ValueError', 'err:value'), 'integratorfxn:str': ('ValueError', 'err:value'),
            'gradientfxn:type': ('TypeError', None), 'integratorfxn:type': ('TypeError', None)}


class OracleModel:
    """expected observations from the shadow state alone (Fractions / double geometry): no Lean, no atomman."""
    name = 'oracle'

    def __init__(self, runner):
        self.r = runner

    def mirror(self, idx, op, sh):
        return None

    def obs(self, idx, sh):
        arc, tau = _geometry(sh.coord)
        grads = [sh.grad_exact(r)[0] for r in sh.coord]
        out = {'coord': [Fraction(v) for r in sh.coord for v in r],
               'energy': [sh.poly.exact(r) for r in sh.coord],
               'grad': [v for g in grads for v in g],
               'arc': arc}
        if tau is None:
            out['tangent'] = out['force'] = ('raise',)
        else:
            out['tangent'] = [v for t in tau for v in t]
            out['force'] = [math.fsum(float(a) * b for a, b in zip(g, t)) for g, t in zip(grads, tau)]
        return out

    def energy_at(self, idx, sh, pts):
        return [sh.poly.exact(r) for r in pts]

    def grad_at(self, idx, sh, pts):
        return [v for r in pts for v in sh.grad_exact(r)[0]]

    def defaults(self, idx, sh):
        n = sh.n
        return [Fraction(1, 20) * min(Fraction(1, 5), Fraction(1, n)), max(Fraction(1, n ** 4), Fraction(1, 10 ** 10))]

    def step(self, idx, sh, h, climb, neg=None):
        """rows the step must leave where the integrator put them: {row index: exact row}."""
        if sh.n < 2:
            return ('raise',)
        _, tau = _geometry(sh.coord)
        rows = {}
        for i in ([0, sh.n - 1] if sh.n > 2 else [0, 1]):
            rows[i] = sh.integrate_exact(sh.coord[i], h)[0]
        if _tangent_condition(sh.coord) < 1e6:
            for i in climb:
                rows[i] = sh.integrate_exact(sh.coord[i], h, tau=[Fraction(t) for t in tau[i]])[0]
        return rows

    def respace(self, climb, alpha):
        return _respace_targets(climb, alpha)

    def ends(self, idx, sh, h, nsteps):
        if sh.n < 2 and nsteps > 0:
            return ('raise',)
        out = []
        for x in (sh.coord[0], sh.coord[-1]):
            for _ in range(nsteps):
                x = sh.integrate_exact(x, h)[0]
            out.append(x)
        return out

    def relax2(self, idx, sh, h, tol, r, c):
        """relax of a two-image path with a tolerance: (rows, displacement measures of both phases)."""
        rows = [[Fraction(v) for v in x] for x in sh.coord]
        ds = []
        for nmax in (r, c):
            for _ in range(nmax):
                new = [sh.integrate_exact(x, h)[0] for x in rows]
                d = max(math.sqrt(_fl(sum((b - a) ** 2 for a, b in zip(x, y)))) for x, y in zip(rows, new)) / h
                rows = new
                ds.append(d)
                if d < tol:
                    break
        return rows, ds

    def adopt(self, idx_old, idx_new, sh_new):
        pass


class LeanModel:
    """the same questions put to the compiled Lean model (`drv_c20`, stateful path table)."""
    name = 'lean'

    def __init__(self, runner, driver):
        self.r, self.d = runner, driver
        self.map = {}
        self.d.ask('preset')

    @staticmethod
    def _rows(rows):
        return ' '.join(cm.frs(r) for r in rows)

    def new(self, idx, sh):
        kw = '' if sh.kw is None else ' ' + cm.fr(sh.kw)
        out = self.d.ask(f'pnew {sh.poly.dim} {sh.n} {sh.g} {0 if sh.kw is None else 1} {sh.integ} '
                         f'{self._rows(sh.coord)} {sh.poly.wire()}{kw}')
        if out.startswith('ok '):
            self.map[idx] = int(out.split()[1])
        return out

    def mirror(self, idx, op, sh):
        k = self.map[idx]
        kind = op['op']
        if kind == 'set_coord':
            return self.d.ask(f'pcoord {k} {len(op["coord"])} {self._rows(op["coord"])}')
        if kind == 'edit_row':
            return self.d.ask(f'prow {k} {op["i"]} {cm.frs(op["row"])}')
        if kind == 'set_gfx':
            a = self.d.ask(f'pgfx {k} {op["g"]}')
            b = self.d.ask(f'pkw {k} 0' if op['kw'] is None else f'pkw {k} 1 {cm.fr(op["kw"])}')
            return a if a != 'ok' else b
        if kind == 'set_kw':
            return self.d.ask(f'pkw {k} 0' if op['kw'] is None else f'pkw {k} 1 {cm.fr(op["kw"])}')
        if kind == 'set_integ':
            return self.d.ask(f'pint {k} {op["integ"]}')
        if kind == 'bad_set':
            attr = op['attr']
            if attr in ('energyfxn', 'gradientkwargs'):
                return self.d.ask(f'psetattr {k} {attr}')
            if attr == 'gradientfxn:str':
                return self.d.ask(f'pgfx {k} forward_difference')
            if attr == 'integratorfxn:str':
                return self.d.ask(f'pint {k} verlet')
            return None
        return None

    @staticmethod
    def _sec(text):
        text = text.strip()
        if text.startswith('err:'):
            return ('raise',)
        return cm.unfrs(text)

    def obs(self, idx, sh):
        out = self.d.ask(f'pobs {self.map[idx]}')
        if out.startswith('err:'):
            return {'_error': out}
        secs = out.split(';')
        return dict(zip(('coord', 'energy', 'grad', 'arc', 'tangent', 'force'), map(self._sec, secs)))

    def energy_at(self, idx, sh, pts):
        return self._sec(self.d.ask(f'penergy {self.map[idx]} {len(pts)} {self._rows(pts)}'))

    def grad_at(self, idx, sh, pts):
        return self._sec(self.d.ask(f'pgradat {self.map[idx]} {len(pts)} {self._rows(pts)}'))

    def defaults(self, idx, sh):
        return self._sec(self.d.ask(f'pdef {sh.n}'))

    def step(self, idx, sh, h, climb, neg=None):
        # the model object gets the indices the way the implementation got them: counted from the end (i - N) where the case says so
        # (`climbImages?` resolves them; theorem `climbImages_neg_equiv`)
        wire = [(i - sh.n) if (neg is True or (neg == 'first' and k == 0)) else i for k, i in enumerate(climb)]
        out = self.d.ask(f'pstep {self.map[idx]} {cm.fr(h)} ' + ' '.join(str(i) for i in wire))
        if out.startswith('err:'):
            return ('raise',)
        head, body = out.split(';')
        self._last_new = int(head.split()[1])
        flat = cm.unfrs(body)
        d = sh.poly.dim
        rows = [flat[i * d:(i + 1) * d] for i in range(sh.n)]
        keep = set([0, sh.n - 1]) | set(climb)
        return {i: rows[i] for i in sorted(keep)}

    def respace(self, climb, alpha):
        out = self.d.ask(f'respace {len(climb)} ' + ' '.join(str(c) for c in climb) + (' ' if climb else '') + cm.frs(alpha))
        return None if out.startswith('err:') else cm.unfrs(out)

    def ends(self, idx, sh, h, nsteps):
        if sh.n < 2 and nsteps > 0:
            return ('raise',)
        out = self.d.ask(f'pends {self.map[idx]} {cm.fr(h)} {nsteps}')
        if out.startswith('err:'):
            return ('raise',)
        flat = cm.unfrs(out)
        d = sh.poly.dim
        self._last_new = None
        return [flat[:d], flat[d:]]

    def relax2(self, idx, sh, h, tol, r, c):
        out = self.d.ask(f'prelax {self.map[idx]} {cm.fr(h)} {cm.fr(tol)} {r} {c}')
        if out.startswith('err:'):
            return ('raise',)
        rows, d1, d2 = out.split(';')
        flat = cm.unfrs(rows)
        d = sh.poly.dim
        self._last_new = None
        return [flat[:d], flat[d:]], [_fl(v) for v in cm.unfrs(d1) + cm.unfrs(d2)]

    def adopt(self, idx_old, idx_new, sh_new):
        """register the object returned by step/relax: same functions and settings, the implementation's coordinates."""
        k = getattr(self, '_last_new', None)
        if k is None:
            out = self.d.ask(f'pcopy {self.map[idx_old]}')
            k = int(out.split()[1])
        self.map[idx_new] = k
        self.d.ask(f'pcoord {k} {sh_new.n} {self._rows(sh_new.coord)}')
        self._last_new = None


def _respace_targets(climb, alpha):
    """the arc coordinates at which a step places the new images: equally spaced between consecutive pinned images
    (first, climbing in increasing order, last), exact arithmetic on the arc coordinates handed in."""
    a = [Fraction(v) for v in alpha]
    cuts = [0] + list(climb) + [len(a) - 1]
    out = list(a)
    for s_, e_ in zip(cuts, cuts[1:]):
        for i in range(s_, e_ + 1):
            out[i] = a[s_] + (a[e_] - a[s_]) * Fraction(i - s_, e_ - s_) if e_ > s_ else a[s_]
    return out


def _flat(x):
    return [float(v) for v in _np().asarray(x, dtype=float).ravel()]


def _differs(impl, want, tols):
    """index of the first entry of `impl` further than its bound from `want`, or None."""
    if len(impl) != len(want):
        return -1
    for i, (a, b) in enumerate(zip(impl, want)):
        t = tols[i] if isinstance(tols, list) else tols
        if t == float('inf'):
            continue                     # beyond the double range: no statement
        fb = _fl(b)
        if not (abs(a - fb) <= t):       # also true for nan
            return i
    return None


def _run_sequence(ctx, ops, model_kind, label):
    """run one operation list on the real code; compare every observation with the model (`oracle`: shadow state with
    exact arithmetic and a freshly built path; `lean`: the Lean path object). Returns the resolved op list."""
    np = _np()
    import sys
    if sys.get_int_max_str_digits() and sys.get_int_max_str_digits() < 100000:
        sys.set_int_max_str_digits(100000)      # exact iterates of cubic maps on the wire
    runner = Runner()
    model = OracleModel(runner) if model_kind == 'oracle' else LeanModel(runner, ctx.driver)
    emit = ctx.violate if model_kind == 'oracle' else ctx.disagree
    done = []
    failed = [False]

    def report(key, what):
        failed[0] = True
        emit(key, f'{what}  [{label}, after {len(done)} operations: ' + ' > '.join(_brief(o) for o in done[-6:]) + ']',
             {'op': 'path-seq', 'ops': done, 'model': model_kind})

    def resync(idx):
        # an edit made through another reference to the array a path was built from: seen as a whole or not at all
        sh_ = runner.shadows[idx]
        if sh_.alt is None:
            return True
        old = [list(r) for r in sh_.coord]
        how = runner.sync(idx)
        if isinstance(how, tuple):
            report('path:alias:coord', f'after an edit of the array the path was built from (through the caller\'s reference or '
                   f'another path built from the same array) its coordinates are {how[1]}: neither the images before '
                   f'({old}) nor the edited ones')
            return False
        if how == 'alt':
            out = model.mirror(idx, {'op': 'set_coord', 'coord': sh_.coord}, sh_)
            if out is not None and out != 'ok':
                report('path:driver', f'model refused the edited coordinates: {out}')
        return True

    for op in ops:
        if failed[0]:
            break
        if op['op'] != 'new' and runner.cur is None:
            break
        if runner.cur is not None and not resync(runner.cur):
            break
        sh = runner.shadows[runner.cur] if runner.cur is not None else None
        if sh is not None and op['op'] not in ('new', 'switch'):
            op = _resolve(op, sh)
        if op['op'] == 'edit_row' and sh.shared:
            continue
        before = sh.copy() if sh is not None else None
        idx = runner.cur
        res = runner.do(op)
        done.append(op)
        kind = op['op']
        raised = isinstance(res, tuple) and res and res[0] == 'raise'
        if kind == 'new':
            if raised:
                report('path:construct-raises', f'constructing the path raised {res[1]}: {res[2]}')
                break
            if model_kind == 'lean':
                out = model.new(runner.cur, runner.shadows[runner.cur])
                if not out.startswith('ok'):
                    report('path:driver', f'model refused the construction: {out}')
            continue
        if kind == 'switch':
            # the other path: its settings may have changed through a dictionary handed to both
            sh2 = runner.shadows[runner.cur]
            if resync(runner.cur):
                out = model.mirror(runner.cur, {'op': 'set_kw', 'kw': sh2.kw}, sh2)
                if out is not None and out != 'ok':
                    report('path:driver', f'model refused the settings: {out}')
            continue
        if kind in ('set_coord', 'edit_row', 'caller_edit', 'set_gfx', 'set_kw', 'set_integ'):
            if res == 'skipped':
                done.pop()
                continue
            if kind == 'caller_edit' and not raised:
                resync(idx)
                continue
            if raised:
                report(f'path:{kind}-raises', f'{_brief(op)} raised {res[1]}: {res[2]}')
                continue
            out = model.mirror(idx, op, sh)
            if out is not None and out != 'ok':
                report('path:driver', f'model refused {_brief(op)}: {out}')
            continue
        if kind == 'bad_set':
            want_exc, want_err = _BAD_SET[op['attr']]
            if not raised:
                report('path:bad-set', f'assignment {op["attr"]} with an invalid value was accepted')
            elif res[1] != want_exc:
                report('path:bad-set', f'assignment {op["attr"]} raised {res[1]} instead of {want_exc}')
            out = model.mirror(idx, op, sh)
            if out is not None and out != want_err:
                report('path:driver', f'model answered {out} to the invalid assignment {op["attr"]}')
            continue
        if kind in ('obs', 'scribble'):
            _check_obs(ctx, report, model, model_kind, runner, idx, sh, res)
            continue
        if kind in ('energy_at', 'grad_at'):
            want = (model.energy_at if kind == 'energy_at' else model.grad_at)(idx, sh, op['pts'])
            if raised:
                report(f'path:{kind}-raises', f'{kind} raised {res[1]}: {res[2]}')
                continue
            if kind == 'energy_at':
                tols = [16 * EPS * sh.poly.absbound(r) for r in op['pts']]
                shape = (len(op['pts']),)
            else:
                tols = [sh.grad_exact(r)[1] for r in op['pts'] for _ in r]
                shape = (len(op['pts']), sh.poly.dim)
            bad = -1 if tuple(res.shape) != shape else _differs(_flat(res), want, tols)
            if bad is not None:
                report(f'path:{kind}', f'{"energy" if kind == "energy_at" else "grad_energy"}(coord) at {op["pts"]} returned '
                       f'{res.tolist()}, expected {[_fl(w) for w in want]} ({sh.g}, settings {sh.kw})')
            continue
        if kind == 'defaults':
            want = model.defaults(idx, sh)
            if raised or _differs(_flat(res), want, [1e-15, 1e-15]) is not None:
                report('path:defaults', f'default_timestep/default_tolerance for {sh.n} images: {res}, expected '
                       f'{[_fl(w) for w in want]}')
            continue
        if kind == 'interp':
            _check_interp(ctx, report, model_kind, sh, op, res, raised)
            continue
        if kind in ('step', 'relax'):
            _check_step(ctx, report, model, model_kind, runner, idx, before, op, res, raised)
            continue
    return done


def _check_interp(ctx, report, model_kind, sh, op, res, raised):
    """interpolate_path: arc coordinates outside [0, length] are refused; at the path's own arc coordinates the images come
    back (the spline interpolates its knots) with all functions and settings; between them the not-a-knot cubic spline
    through the images (scipy evaluated independently, oracle side)."""
    np = _np()
    w = op['where']
    ctx.stats.case(f'{model_kind}:path-interpolate', (repr(sh.spec()), w), nontrivial=sh.n >= 2)
    if sh.n < 2 or _degenerate(sh.coord):
        return
    if w in ('below', 'above', 'hair-below', 'hair-above'):
        if not (raised and res[1] == 'ValueError'):
            arc_, _ = _geometry(sh.coord)
            what = {'below': f'{-0.25 * arc_[-1]!r}', 'above': f'{1.25 * arc_[-1]!r}', 'hair-below': f'{-arc_[-1] * 2.0 ** -30!r}',
                    'hair-above': 'the next double above the length'}[w]
            report('path:interpolate:range', f'interpolate_path with the arc coordinate {what} outside the range [0, length = {arc_[-1]!r}] '
                   f'{"raised " + res[1] if raised else "returned a path"} instead of raising ValueError (coord {sh.coord})')
        return
    if raised:
        report('path:interpolate-raises', f'interpolate_path({w}) raised {res[1]}: {res[2]} (coord {sh.coord})')
        return
    d = sh.poly.dim
    scale = max(1.0, max(abs(v) for r in sh.coord for v in r))
    if not res.get('arc_untouched', True):
        report('path:interpolate:input', f'interpolate_path changed the array of arc coordinates it was handed ({res["arc"].tolist()})')
        return
    if res['type'] != 'ISMPath' or not res['same']:
        report('path:interpolate:settings', f'the path returned by interpolate_path does not carry the functions and settings of the path')
        return
    arc, _ = _geometry(sh.coord)
    seg = [b - a for a, b in zip(arc, arc[1:])]
    amp = (max(seg) / min(seg)) ** 2
    if w in ('knots', 'reversed'):
        # the path's own arc coordinates (in path order, or listed from the far end): the images come back in that order
        want = np.array(sh.coord, dtype=float)[::(1 if w == 'knots' else -1)]
        tol = 1e3 * EPS * scale * amp
    else:
        if model_kind != 'oracle' or amp > 1e4:
            return
        from scipy.interpolate import CubicSpline
        a = np.array(arc)
        want = CubicSpline(a, np.array(sh.coord, dtype=float))(np.concatenate([a[:1], (a[1:] + a[:-1]) / 2, a[-1:]]))
        tol = 1e4 * EPS * scale * amp
    got = res['coord']
    if got.shape != want.shape or not (np.abs(got - want) <= tol).all():
        report('path:interpolate', f'interpolate_path at {"the arc coordinates of the images" if w in ("knots", "reversed") else "the segment midpoints"} '
               f'{res["arc"].tolist()} of coord {sh.coord} returned {got.tolist()}, expected {want.tolist()}')


def _brief(op):
    k = op['op']
    if k == 'new':
        sh_ = op.get('share') or {}
        return (f"{op.get('via', 'create_path')}({len(op['coord'])}x{len(op['coord'][0])} {op.get('coord_as', 'array')}"
                f"{' (the same object as the first path)' if sh_.get('coord') else ''}, gradientfxn={op.get('gname')}/{op['g']}, "
                f"kwargs={op['kw']}/{op.get('kwform')}{' (the same dict as the first path)' if sh_.get('kw') else ''}, "
                f"integratorfxn={op.get('iname')}/{op['integ']}{', positional' if op.get('call') == 'pos' else ''})")
    if k == 'set_coord':
        return f"coord = <{len(op.get('coord', []))} images, {op.get('how')}>"
    if k == 'edit_row':
        return f"coord[{op['i']}] = {op.get('row')}"
    if k == 'set_gfx':
        return f"gradientfxn = {op.get('name')}/{op['g']}, kwargs={op['kw']}"
    if k == 'set_kw':
        return f"gradientkwargs <- {op['kw']}"
    if k == 'set_integ':
        return f"integratorfxn = {op.get('name')}"
    if k == 'interp':
        return f"interpolate_path({op['where']})"
    if k == 'switch':
        return f"<the {'first' if op['to'] == 0 else 'second'} path>"
    if k == 'caller_edit':
        return f"<caller's array>[{op['i']}] = {op.get('row')}"
    if k in ('obs', 'scribble') and op.get('order'):
        return ('read+scribble ' if k == 'scribble' else 'read ') + '/'.join(op['order'])
    if k == 'bad_set':
        return f"bad {op['attr']}"
    if k == 'step':
        return (f"step(h={'default ' if op.get('hdefault') else ''}{op['h']}{'/' + op['h_as'] if op.get('h_as') else ''}, climb={op.get('climb')}"
                f"{'/' + op['climb_as'] if op.get('climb_as') and op.get('climb') is not None else ''}{' given as negative ind' + ('ices i - N' if op['climb_neg'] is True else 'ex i - N (first)') if op.get('climb_neg') and op.get('climb') not in (None, []) else ''}{', positional' if op.get('call') == 'pos' else ''}"
                f"{', adopt' if op.get('adopt') else ''})")
    if k == 'relax':
        return (f"relax({op['r']},{op['c']},h={'default ' if op.get('hdefault') else ''}{op['h']},tol={op.get('tol', 0.0)}" + (f",climbpoints={op['cp']}" if op.get('cp') is not None else '')
                + f"{', positional' if op.get('call') == 'pos' else ''}{', verbose default' if op.get('verbose', False) is None else ''}"
                + f"{', adopt' if op.get('adopt') else ''})")
    return k


def _obs_tolerances(sh):
    n, d = sh.n, sh.poly.dim
    gt = [sh.grad_exact(r) for r in sh.coord]
    arc, _ = _geometry(sh.coord)
    tol = {'coord': 0.0,
           'energy': [16 * EPS * sh.poly.absbound(r) for r in sh.coord],
           'grad': [t for _, t in gt for _ in range(d)],
           'arc': 16 * EPS * (n + 1) * (1.0 + (arc[-1] if arc else 0.0))}
    if n >= 2:
        tt = 32 * EPS * _tangent_condition(sh.coord)
        tol['tangent'] = tt
        tol['force'] = [d * (t + tt * max(abs(float(v)) for v in g)) + 8 * EPS * sum(abs(float(v)) for v in g)
                        for g, t in gt]
    return tol


def _check_obs(ctx, report, model, model_kind, runner, idx, sh, res):
    np = _np()
    want = model.obs(idx, sh)
    if '_error' in want:
        report('path:driver', f'model cannot be read: {want["_error"]}')
        return
    tol = _obs_tolerances(sh)
    shapes = {'coord': (sh.n, sh.poly.dim), 'energy': (sh.n,), 'grad': (sh.n, sh.poly.dim), 'arc': (sh.n,),
              'tangent': (sh.n, sh.poly.dim), 'force': (sh.n,)}
    names = {'coord': '.coord', 'energy': '.energy()', 'grad': '.grad_energy()', 'arc': '.arccoord',
             'tangent': '.unittangent', 'force': '.force'}
    ctx.stats.case(f'{model_kind}:path-read', (repr(sh.spec()), idx), nontrivial=sh.n >= 2,
                   sample={'op': 'path-read', 'state': sh.spec()})
    illcond = sh.n >= 2 and not (_tangent_condition(sh.coord) < 1e6)
    read = [name for name in res if name in _READS]      # in the order in which they were read
    how = f' [read in the order {", ".join(read)}]' if read != list(_READS) else ''
    for name in read:
        if illcond and name in ('tangent', 'force'):
            continue        # coincident images / cancelling unit differences: 0/0 in the implementation
        got, exp = res[name], want[name]
        got_raise = isinstance(got, tuple)
        exp_raise = isinstance(exp, tuple)
        if got_raise or exp_raise:
            if got_raise != exp_raise:
                report(f'path:{name}', f'{names[name]} {"raised " + got[1] if got_raise else "returned a value"} where the model '
                       f'{"raises" if exp_raise else "returns a value"} ({sh.n} images)')
                return
            continue
        bad = -1 if tuple(got.shape) != shapes[name] else _differs(_flat(got), exp, tol[name])
        if bad is not None:
            report(f'path:{name}', f'{names[name]} of the path is {got.tolist()} but its state (coord {sh.coord}, gradient '
                   f'{sh.g}, settings {sh.kw}) gives {[_fl(w) for w in exp]}' + (f' (first difference at flat index {bad})' if bad >= 0 else ' (shape)') + how)
            return
    # reads must not write: coordinates and settings after the reads
    after = res.get('coord_after')
    if after is not None and (isinstance(after, tuple) or after.shape != shapes['coord']
                              or not np.array_equal(after, np.array(sh.coord, dtype=float).reshape(shapes['coord']))):
        report('path:reads-write', f'after reading {", ".join(read)} the coordinates of the path are '
               f'{after if isinstance(after, tuple) else after.tolist()} instead of {sh.coord}')
        return
    if 'kwargs' in res and res['kwargs'] != Runner._kwdict(sh.g, sh.kw):
        report('path:reads-write', f'after reading {", ".join(read)} the settings dictionary of the path is {res["kwargs"]} instead of '
               f'{Runner._kwdict(sh.g, sh.kw)}')
        return
    pc = getattr(runner.objs[idx], 'coord', None)
    if model_kind == 'oracle' and getattr(getattr(pc, 'flags', None), 'c_contiguous', False):
        # the same state in a freshly constructed object: bit-identical reads (same memory layout of the coordinates)
        fresh = Runner.observe(runner.build(sh.copy(), via='ISMPath', gname=('callable' if sh.g == 'an' else 'function'),
                                            iname='function'))
        for name in read:
            a, b = res[name], fresh[name]
            same = (a == b) if isinstance(a, tuple) or isinstance(b, tuple) else \
                (a.shape == b.shape and bool(np.array_equal(a, b, equal_nan=True)))
            if not same:
                report(f'path:{name}:fresh', f'{names[name]} of the path ({a if isinstance(a, tuple) else a.tolist()}) differs from '
                       f'that of a freshly built path with the same coordinates, functions and settings '
                       f'({b if isinstance(b, tuple) else b.tolist()})' + how)
                return


def _climb_degenerate(runner, before, op, climb):
    """climbing with a tangent that is 0/0 (coincident images, cancelling unit differences): the implementation
    hands nan to the spline and raises; the model makes no statement there."""
    np = _np()
    if op['op'] == 'step':
        return bool(climb) and not _tangent_condition(before.coord) < 1e6
    if op['c'] == 0 or before.n < 3:
        return False
    try:        # the string the climbing phase starts from
        with np.errstate(all='ignore'):
            q = runner.build(before.copy(), via='ISMPath', gname=('callable' if before.g == 'an' else 'function'),
                             iname='function').relax(relaxsteps=op['r'], climbsteps=0, timestep=op['h'], tolerance=0.0,
                                                     verbose=False)
        return not (np.isfinite(q.coord).all() and _tangent_condition(q.coord.tolist()) < 1e6)
    except Exception:  # noqa
        return False


def _integrated_coincide(sh, h, climb):
    """the integrator puts two consecutive images of the string `sh` on the same point (to rounding): the arc
    coordinates handed to the spline are not strictly increasing and the implementation raises; no statement."""
    _, tau = _geometry(sh.coord)
    rows = []
    for i, x in enumerate(sh.coord):
        t = [Fraction(v) for v in tau[i]] if (i in climb and all(math.isfinite(v) for v in tau[i])) else None
        rows.append([_fl(v) for v in sh.integrate_exact(x, h, tau=t)[0]])
    if not all(math.isfinite(v) for r in rows for v in r):
        return True
    scale = max(1.0, max(abs(v) for r in rows for v in r))
    return min(math.sqrt(sum((a - b) ** 2 for a, b in zip(r0, r1))) for r0, r1 in zip(rows, rows[1:])) <= 1e-9 * scale


def _coincide_on_the_way(runner, before, op, climb):
    """step / relax raised: is it because integrated images coincide at the step that raises?"""
    np = _np()
    if before.n < 2:
        return False
    if op['op'] == 'step':
        return _integrated_coincide(before, op['h'], climb)
    try:
        with np.errstate(all='ignore'):
            cur = runner.build(before.copy(), via='ISMPath', gname=('callable' if before.g == 'an' else 'function'), iname='function')
            sel = []
            for phase, nmax in (('r', op['r']), ('c', op['c'])):
                if phase == 'c':
                    sel = _Selection.want([float(v) for v in np.asarray(cur.energy(), dtype=float).ravel()], op.get('cp'))
                for _ in range(nmax):
                    try:
                        nxt = cur.step(timestep=op['h'], **({'climbindex': np.array(sel, dtype=int)} if phase == 'c' else {}))
                    except Exception:  # noqa
                        sh = before.copy()
                        sh.coord = np.array(cur.coord, dtype=float).tolist()
                        return _integrated_coincide(sh, op['h'], sel)
                    d = float(np.linalg.norm(nxt.coord - cur.coord, axis=-1).max()) / op['h']
                    cur = nxt
                    if d < op.get('tol', 0.0):
                        break
    except Exception:  # noqa
        return False
    return False


def _respacing_oracle(before, op, climb, new, cond):
    """the whole step, interior images included: integrate every image exactly, then place the images at equal arc
    coordinate within each segment between pinned images on the cubic spline through the integrated images (scipy's
    CubicSpline evaluated here, independently of atomman). None if `new` is that path."""
    np = _np()
    from scipy.interpolate import CubicSpline
    if climb and not cond < 1e3:
        return 'skip'
    _, tau = _geometry(before.coord)
    rows, tols = [], []
    for i, x in enumerate(before.coord):
        r, t = before.integrate_exact(x, op['h'], tau=[Fraction(v) for v in tau[i]] if i in climb else None)
        rows.append([_fl(v) for v in r])
        tols.append(t)
    ic = np.array(rows)
    if not np.isfinite(ic).all() or not all(t < 1e-6 for t in tols):
        return 'skip'
    seg = np.linalg.norm(ic[1:] - ic[:-1], axis=1)
    if seg.min() <= 1e-6 * max(1.0, seg.max()):
        return 'skip'
    alpha = np.concatenate([[0.0], np.cumsum(seg)])
    newa = np.empty_like(alpha)
    cuts = [0] + sorted(climb) + [before.n - 1]
    for a, b in zip(cuts, cuts[1:]):
        newa[a:b + 1] = np.linspace(alpha[a], alpha[b], b - a + 1)
    want = CubicSpline(alpha, ic)(newa)
    # conditioning: the spline amplifies errors of the knots by about (longest / shortest segment)^2
    amp = (seg.max() / seg.min()) ** 2
    tol = (max(tols) + 1e3 * EPS * max(1.0, float(np.abs(ic).max()))) * 10 * amp + (64 * EPS * cond * 10 * amp if climb else 0.0)
    bad = np.argwhere(~(np.abs(new - want) <= tol))
    if len(bad) == 0:
        return None
    i, j = (int(v) for v in bad[0])
    return (f'image {i} is {new[i].tolist()}; equal spacing in arc coordinate between the pinned images {cuts} on the spline '
            f'through the integrated images puts it at {want[i].tolist()}')


def _check_step(ctx, report, model, model_kind, runner, idx, before, op, res, raised):
    np = _np()
    kind = op['op']
    p = runner.objs[idx]
    d = before.poly.dim
    ctx.stats.case(f'{model_kind}:path-{kind}', (repr(before.spec()), repr(op)), nontrivial=before.n >= 2,
                   sample={'op': kind, 'state': before.spec(), 'args': {k: v for k, v in op.items() if k != 'op'}})
    # the object stepped from is untouched
    now = np.array(p.coord, dtype=float)
    if now.shape != (before.n, d) or not np.array_equal(now, np.array(before.coord, dtype=float)):
        report(f'path:{kind}:mutates-self', f'{_brief(op)} changed the coordinates of the path it was called on: '
               f'{before.coord} -> {now.tolist()}')
        return
    if kind == 'step':
        climb = op.get('climb')
        climb = [] if climb is None else ([climb] if isinstance(climb, int) else list(climb))
        want = model.step(idx, before, op['h'], climb, op.get('climb_neg'))
        nsteps = 1
    else:
        nsteps = op['r'] + op['c']
        climb = []
        # exact iteration of a cubic map multiplies the size of the rationals 16-fold (RK) / 2-fold (Euler) per step
        bits = max(Fraction(v).denominator.bit_length() + 4 for r in (before.coord[0], before.coord[-1]) for v in r) \
            + (17 if before.g == 'cd' and before.kw is None else 12)
        exact_ok = bits * (16 if before.integ == 'rk' else 2) ** nsteps <= 40000
        if op.get('tol', 0.0) > 0 and before.n == 2 and nsteps and exact_ok:
            # the loop of relax with its convergence test: stops after the first step whose displacement measure is below
            # the tolerance (in each phase); a measure within 1e-7 of the tolerance decides nothing
            rows2, ds = model.relax2(idx, before, op['h'], op['tol'], op['r'], op['c'])
            if any(abs(d - op['tol']) <= 1e-7 * op['tol'] for d in ds):
                ctx.stats.case(f'{model_kind}:path-relax-near-tie', repr(op), nontrivial=False)
                want = None
            else:
                want = rows2
                nsteps = len(ds)
                ctx.stats.case(f'{model_kind}:path-relax-tolerance', (repr(before.spec()), repr(op)),
                               sample={'op': 'relax', 'state': before.spec(), 'args': {k: v for k, v in op.items() if k != 'op'},
                                       'displacements': ds})
        elif op.get('tol', 0.0) > 0 and before.n > 2:
            want = None         # the number of steps depends on the interior images: compared with stepping by hand below
        else:
            want = model.ends(idx, before, op['h'], nsteps) if nsteps and (exact_ok or before.n < 2) else None
    if kind == 'relax' and nsteps == 0:
        if raised or res['coord'].shape != (before.n, d) or not np.array_equal(res['coord'], now):
            report('path:relax0', f'relax with no steps did not return the unchanged path: {res}')
        elif not res.get('same_object'):
            model.adopt(idx, res['index'], runner.shadows[res['index']])
        return
    if isinstance(want, tuple):
        if not raised:
            report(f'path:{kind}', f'{_brief(op)} on a {before.n}-image path returned a path where the model refuses')
        return
    if raised:
        if _climb_degenerate(runner, before, op, climb):
            ctx.stats.case(f'{model_kind}:path-degenerate-tangent', repr(op), nontrivial=False)
            return
        if res[1] == 'ValueError' and _coincide_on_the_way(runner, before, op, climb):
            ctx.stats.case(f'{model_kind}:path-coincident-after-integration', repr(op), nontrivial=False)
            return
        report(f'path:{kind}-raises', f'{_brief(op)} raised {res[1]}: {res[2]}')
        return
    new = res['coord']
    scale_all = max(1.0, max(abs(v) for r in before.coord for v in r))
    if new.shape == (before.n, d) and not (np.isfinite(new).all() and np.abs(new).max() <= 100 * scale_all):
        # the images ran away (cubic energies are unbounded below): outside the stable range, no statement
        ctx.stats.case(f'{model_kind}:path-runaway', repr(op), nontrivial=False)
        runner.cur = None
        return
    scale_all = max(scale_all, float(np.abs(new).max())) if new.size else scale_all
    if res['type'] != 'ISMPath' or new.shape != (before.n, d):
        report(f'path:{kind}:shape', f'{_brief(op)} returned {res["type"]} with coordinates of shape {new.shape}')
        return
    if res.get('shares_memory'):
        report(f'path:{kind}:aliases-self', f'the coordinates of the path returned by {_brief(op)} share memory with those of the '
               f'path it was called on: an in-place edit of one changes the other')
        return
    if not (res['same_energyfxn'] and res['same_gradientfxn'] and res['kwargs'] == Runner._kwdict(before.g, before.kw)):
        report(f'path:{kind}:settings', f'the path returned by {_brief(op)} does not carry the energy/gradient functions and '
               f'settings of the path it came from (kwargs {res["kwargs"]})')
        return
    if not res['same_integratorfxn']:
        report(f'path:{kind}:integrator', f'the path returned by {_brief(op)} does not use the integrator of the path it came '
               f'from ({before.integ})')
        return
    # rows that the re-spacing must leave where the integrator put them
    if kind == 'step' and res.get('respace') is not None and before.n >= 2:
        # where the new images are placed: equal spacing in arc coordinate between consecutive pinned images
        alpha, newa = res['respace']
        cl = sorted(set(climb))
        if len(alpha) == before.n and all(0 < c < before.n - 1 for c in cl) and np.isfinite(alpha).all():
            want_a = model.respace(cl, alpha.tolist())
            ctx.stats.case(f'{model_kind}:path-respace-targets', (repr(alpha.tolist()), repr(cl)), nontrivial=before.n >= 3)
            tol_a = 16 * EPS * max(1.0, float(np.abs(alpha).max()))
            if want_a is None or newa.shape != alpha.shape or _differs(_flat(newa), want_a, tol_a) is not None:
                report('path:step:targets', f'{_brief(op)} from coord {before.coord}: the integrated images have arc coordinates '
                       f'{alpha.tolist()}; interpolate_path was handed {newa.tolist()}, equal spacing between the pinned images '
                       f'{[0] + cl + [before.n - 1]} is {None if want_a is None else [_fl(v) for v in want_a]}')
                return
    if kind == 'step':
        _, tau = _geometry(before.coord)
        cond = _tangent_condition(before.coord)
        for i, row in sorted(want.items()):
            if i in climb and not cond < 1e6:
                continue
            if i in climb:
                _, tol = before.integrate_exact(before.coord[i], op['h'], tau=[Fraction(t) for t in tau[i]])
                gmax = max(abs(float(v)) for v in before.grad_exact(before.coord[i])[0])
                tol += 4 * 64 * EPS * cond * abs(op['h']) * (gmax + 1)
            else:
                _, tol = before.integrate_exact(before.coord[i], op['h'])
            tol += 1e3 * EPS * scale_all      # spline evaluation at a knot
            if _differs(_flat(new[i]), row, tol) is not None:
                report(f'path:step:{"climb" if i in climb else "end"}-row',
                       f'{_brief(op)} from coord {before.coord} ({before.integ}, gradient {before.g}, settings {before.kw}): image {i} is '
                       f'{new[i].tolist()}, the integrator step of that image is {[_fl(v) for v in row]}')
                return
        if model_kind == 'oracle' and before.n >= 3:
            why = _respacing_oracle(before, op, climb, new, cond)
            ctx.stats.case('oracle:path-respacing' + ('-skipped' if why == 'skip' else ''), (repr(before.spec()), repr(op)),
                           nontrivial=why != 'skip')
            if why not in (None, 'skip'):
                report('path:step:respacing', f'{_brief(op)} from coord {before.coord} ({before.integ}, gradient {before.g}, settings '
                       f'{before.kw}): {why}')
                return
    elif want is None:
        ctx.stats.case(f'{model_kind}:path-relax-unchecked-rows', repr(op), nontrivial=False)
    else:
        for x0, row, i in ((before.coord[0], want[0], 0), (before.coord[-1], want[1], before.n - 1)):
            tol, x = 0.0, x0
            for _ in range(nsteps):
                x, t = before.integrate_exact(x, op['h'])
                try:
                    hl = abs(op['h']) * before.poly.lipschitz(max(abs(_fl(v)) for v in x) + 1)
                    tol = tol * (1 + hl) ** (4 if before.integ == 'rk' else 1) + t + 1e3 * EPS * scale_all
                except OverflowError:
                    tol = float('inf')
            if not tol < 1e-3 * (1 + max(abs(_fl(v)) for v in x)):
                continue
            if _differs(_flat(new[i]), row, tol) is not None:
                report('path:relax:end-row', f'{_brief(op)} from coord {before.coord} ({before.integ}, gradient {before.g}, settings '
                       f'{before.kw}): end image {i} is {new[i].tolist()}, {nsteps} integrator steps of that image give '
                       f'{[_fl(v) for v in row]}')
                return
    if kind == 'relax' and model_kind == 'oracle':
        why = _relax_by_steps(runner, before, op, new)
        ctx.stats.case('oracle:path-relax-by-steps' + ('-skipped' if why == 'skip' else ''), (repr(before.spec()), repr(op)),
                       nontrivial=why != 'skip' and before.n >= 3)
        if why not in (None, 'skip'):
            report('path:relax:loop', f'{_brief(op)} from coord {before.coord} ({before.integ}, gradient {before.g}, settings {before.kw}): {why}')
            return
    model.adopt(idx, res['index'], runner.shadows[res['index']])


def _relax_by_steps(runner, before, op, new):
    """what relax documents, done by hand with the path's own step(): up to `relaxsteps` plain steps, each followed by the
    test max|displacement|/timestep < tolerance; then the climbing images = the first `climbpoints` interior
    maxima of the energies of the string reached; up to `climbsteps` steps with these. None if `new` is that string."""
    np = _np()
    h, tol = op['h'], op.get('tol', 0.0)
    try:
        with np.errstate(all='ignore'):
            cur = runner.build(before.copy(), via='ISMPath', gname=('callable' if before.g == 'an' else 'function'), iname='function')
            log = []
            for _ in range(op['r']):
                nxt = cur.step(timestep=h)
                d = float(np.linalg.norm(nxt.coord - cur.coord, axis=-1).max()) / h
                cur = nxt
                log.append(d)
                if d < tol:
                    break
            E = [float(v) for v in np.asarray(cur.energy(), dtype=float).ravel()]
            sel = _Selection.want(E, op.get('cp'))
            for _ in range(op['c']):
                nxt = cur.step(timestep=h, climbindex=np.array(sel, dtype=int))
                d = float(np.linalg.norm(nxt.coord - cur.coord, axis=-1).max()) / h
                cur = nxt
                log.append(d)
                if d < tol:
                    break
            want = np.array(cur.coord, dtype=float)
    except Exception:  # noqa: degenerate tangents on the way: no statement
        return 'skip'
    if not np.isfinite(want).all() or any(abs(d - tol) <= 1e-7 * tol for d in log if tol > 0):
        return 'skip'
    # energies within rounding of a tie decide nothing about the climbing images
    if op['c'] and any(abs(a - b) <= 1e-9 * max(1.0, abs(a), abs(b)) for a, b in zip(E, E[1:])):
        return 'skip'
    if want.shape == new.shape and np.allclose(new, want, rtol=1e-9, atol=1e-9 * max(1.0, float(np.abs(want).max()))):
        return None
    return (f'returned {new.tolist()}; stepping by hand ({len(log)} steps, displacement measures {log}, climbing images {sel} chosen '
            f'from the energies {E} after the relaxation steps) gives {want.tolist()}')


_VIEWS = ['ellipsis', 'column', 'transpose', 'moveaxis', 'swapaxes', 'take-slice']


def _view_fxn(kind, k):
    """E(v) = v_k returned as a VIEW of v (no copy): the ways of picking one coordinate of every point."""
    np = _np()

    def fxn(v):
        v = np.asarray(v)
        if v.ndim == 1:
            return v[k]
        if kind == 'column' and v.ndim == 2:
            return v[:, k]
        if kind == 'transpose' and v.ndim == 2:
            return v.T[k]
        if kind == 'moveaxis':
            return np.moveaxis(v, -1, 0)[k]
        if kind == 'swapaxes' and v.ndim == 2:
            return np.swapaxes(v, 0, 1)[k]
        if kind == 'take-slice':
            return v[..., k:k + 1].reshape(v.shape[:-1])
        return v[..., k]
    return fxn


_LEADING = [(), (1,), (3,), (5,), (2, 3), (3, 2), (2, 2), (3, 3), (4, 4), (1, 4), (4, 1), (2, 5), (2, 3, 2), (2, 2, 2),
            (3, 3, 3), (2, 3, 4), (1, 2, 1), (2, 1, 3, 2)]


def _gen_cd_array(rng, tier_big=False):
    """points of every leading shape for central_difference: () (N,) (m,n) (k,m,n) (j,k,m,n), square and not."""
    d = rng.choice([1, 2, 2, 3, 3, 4])
    lead = rng.choice(_LEADING)
    npts = 1
    for k in lead:
        npts *= k
    poly = _gen_poly(rng, d)
    span = rng.choice([1.0, 2.0, 8.0])
    container = rng.choice(['array', 'array', 'list', 'intlist', 'intarray', 'tuple', 'float32array', 'fortranarray', 'stridedarray',
                            'readonlyarray'])
    bits = 0 if container.startswith('int') else 3
    pts = [[cm.dyadic(rng, -span, span, bits) for _ in range(d)] for _ in range(npts)]
    shift = rng.choice([None, 2.0 ** -3, 2.0 ** -6, 2.0 ** -10, 1e-3, 2.0 ** -2, 0.01, -2.0 ** -5, -1e-3])
    case = {'op': 'cd-array', 'poly': poly.spec(), 'lead': list(lead), 'pts': pts, 'shift': shift, 'container': container,
            'returns': rng.choice(['numpy', 'numpy', 'float', '0d'])}
    if rng.random() < 0.2:
        # a tilted plane E = v_k written the way one writes it: the value IS a view of the argument (v[..., k], v[:, k],
        # v.T[k], np.moveaxis(v, -1, 0)[k]); its gradient is the k-th unit vector, whatever the step
        k = rng.randrange(d)
        case.update(poly=Poly([1.0 if i == k else 0.0 for i in range(d)], [0.0] * d, [0.0] * d, 0.0).spec(), view=rng.choice(_VIEWS), k=k)
    return case


def _cd_array_call(case):
    """the implementation on the case: (array | ('raise', name, text), poly)."""
    np = _np()
    from atomman.mep.gradient import central_difference
    poly = Poly(**case['poly'])
    X = np.array(case['pts'], dtype=float).reshape(tuple(case['lead']) + (poly.dim,))
    cont = case.get('container', 'array')
    if cont.startswith('int'):          # evaluation points with integer coordinates given as Python ints / an int array
        X = X.astype(int)
    elif cont == 'float32array':
        X = X.astype(np.float32)        # dyadic points with 3 binary digits: exact in single precision
    elif cont == 'fortranarray':
        X = np.asfortranarray(X)
    elif cont == 'stridedarray':
        big = np.full(tuple(2 * k + 1 for k in X.shape), 7.25)
        sl = tuple(slice(1, None, 2) for _ in X.shape)
        big[sl] = X
        X = big[sl]
    elif cont == 'readonlyarray':
        X.setflags(write=False)

    def nest(v):
        return tuple(nest(t) for t in v) if isinstance(v, list) else v
    arg = X if cont.endswith('array') else (nest(X.tolist()) if cont == 'tuple' else X.tolist())
    keep = X.copy()
    # the energy function may return a Python float or a 0-d array for a single point
    ret = case.get('returns', 'numpy')

    vfx = _view_fxn(case['view'], case['k']) if case.get('view') else None

    def fxn(v):
        if vfx is not None:
            poly.ncalls += 1
            r = vfx(v)
        else:
            r = poly(v)
        if np.ndim(r) == 0 and ret != 'numpy':
            return float(r) if ret == 'float' else np.asarray(r)
        return r
    shift = () if case['shift'] is None else (case['shift'],)
    try:
        with np.errstate(all='ignore'):
            g = central_difference(fxn, arg, *shift)
        if cont.endswith('array') and not (arg.dtype == keep.dtype and np.array_equal(arg, keep)):
            bad = np.argwhere(arg != keep)[0]
            return ('mutated', 'input', f'the coordinate array handed in was changed: entry {tuple(int(v) for v in bad)} '
                    f'{keep[tuple(bad)]!r} -> {arg[tuple(bad)]!r}'), poly
        g = np.asarray(g)
        first = g.copy()
        with np.errstate(all='ignore'):
            g2 = np.asarray(central_difference(fxn, np.array(X, dtype=float) * 0.5 + 0.125, *shift))
        if np.shares_memory(g, g2) or (cont.endswith('array') and np.shares_memory(g, arg)) or not np.array_equal(g, first, equal_nan=True):
            return ('mutated', 'result', 'the gradient array returned shares memory with the points handed in or with the array '
                    'returned by the next call'), poly
        return g, poly
    except Exception as e:  # noqa: an observation
        return ('raise', type(e).__name__, str(e)[:200]), poly


def _cd_array_check(case, got, poly, want_flat=None):
    """None if the returned array is the gradient array of the case, else a description."""
    np = _np()
    shape = tuple(case['lead']) + (poly.dim,)
    s = 1e-5 if case['shift'] is None else case['shift']
    if isinstance(got, tuple):
        return got[2] if got[0] == 'mutated' else f'raised {got[1]}: {got[2]}'
    if tuple(got.shape) != shape:
        return f'returned shape {tuple(got.shape)}'
    if want_flat is None:
        se = Fraction('1e-5') if case['shift'] is None else s
        want_flat = [v for r in case['pts'] for v in poly.exact_cd(r, se)]
    tols = [32 * EPS * poly.absbound(r, s) / abs(s) + 1e-300 for r in case['pts'] for _ in r]
    bad = _differs(_flat(got), want_flat, tols)
    if bad is None:
        return None
    k, i = divmod(bad, poly.dim)
    return (f'entry {tuple(int(q) for q in np.unravel_index(k, shape[:-1])) if shape[:-1] else ()}+({i},) is {_flat(got)[bad]!r}, the gradient component '
            f'{i} at point {case["pts"][k]} is {float(want_flat[bad])!r}')


# ----------------------------------------------------------------------------------------
# correspondence: generated Lean definitions vs the real functions, same exact inputs
# ----------------------------------------------------------------------------------------
RULE = ('random dyadic matrices A (dim 1-6), vectors y, steps h for euler/rungekutta with rate A@y; separable cubic '
        '+ bilinear test functions for central_difference at single points and on coordinate arrays of leading shape '
        '() (N,) (m,n) (k,m,n) (j,k,m,n), square and non-square, float and integer typed, array and nested list, explicit '
        'and default shift; random gradients/tangents for the climbing rate; scripted relax control flow; operation sequences '
        'on one path object: construct (create_path / ISMPath, every spelling of the options, 1-6 images in 1-4 dimensions, '
        'integer or float images) then 3-8 of {coord = new images | one image moved | different image count; in-place '
        'edit of one image; gradientfxn = ...; gradientkwargs changed in place; integratorfxn = ...; invalid assignments; '
        'energy(coord) / grad_energy(coord) at other points; default_timestep/tolerance; step (with and without climbing '
        'images, time step 1/8..1/2 of the stable limit 1/Lipschitz); relax(0-2, 0-1, tolerance 0)} each followed by a '
        'read of coord, energy(), grad_energy(), arccoord, unittangent, force; stepping continues on the returned path '
        'half of the time. Excluded: coincident consecutive images / cancelling unit differences (tangent 0/0), strings '
        'that ran away (|coord| grew 100-fold: cubic energies are unbounded below), exact iterates above 40000 bits, steps '
        'whose integrated images coincide (the spline refuses). Round 2: every euler/rk case also with y·2^k (k = -60…60) and '
        'with (A·2^k, h·2^-k); arrays of 1-5 points advanced in one call, row n by its own matrix, matrices / a gain handed '
        'through the keyword arguments of the step (defaults zero), at a common scale 2^k; relax with a scripted step and image '
        'energies tabulated per (image, steps behind the string) over few values (ties, flat tops, high end images), 2-8 '
        'images, climbpoints None/0/1/2/3/N, against climbIndices; relax ops with climbpoints and, on longer paths, a tolerance. '
        'Round 3 (cross-cutting): the reads after each operation come in a random order, sometimes only some of them, and in one '
        'case of five the arrays returned are overwritten afterwards; coordinates and settings are read again after the reads; '
        'images handed over as float64 / float32 / integer array, nested list / tuple, Fortran-ordered, strided view, read-only; '
        'in 30% of the sequences a second path is built from the very same array object and/or settings dictionary (or both '
        'without settings) and the operations alternate between the two; the caller edits the array it handed over; step / '
        'relax called with keywords or positionally, the time step as float / numpy float64 / float32 / 0-d array / 0, '
        'climbindex as int / numpy integer / list / tuple / int64 / int32 array / empty, climbpoints 0, verbose left at its '
        'default; constructors called positionally; interpolate_path at its knots in path order and reversed, a hair '
        '(next double; 2^-30 of the length) outside [0, length]; default_timestep/tolerance before and after a change of the '
        'number of images (1-9); every sixth oracle sequence under other working units; constructor refusals and option '
        'spellings; integrator inputs as list / tuple / float32 / integer / Fortran / strided / read-only arrays, h = 0, the state '
        'at 2^k up to |k| = 1000; central_difference points in the same containers, energy functions returning Python floats / '
        '0-d arrays for a single point; tabulated energies with neighbours within 2^-20…2^-50, with inf / nan entries (oracle '
        'only), in units of 2^±1000; paths in units of length up to 2^±300. '
        'Round 4: one gradient case in five is a coordinate projection f(v) = v_k returned as a VIEW of its argument (v[..., k], '
        'v[:, k], v.T[k], moveaxis, take-slice); every (A, y, h) also with the rate function np.dot(A, y, out=buf); return buf, and '
        'arrays of points with rate values handed back as one reused buffer / a view into one work array / read-only arrays; '
        'climbing images of a step named by negative indices i - N (all, or the first of several) in every container form, for the '
        'implementation and for the Lean object (climbImages?); a relaxation driven from outside through step(h, climbindex=top - N); '
        'counts and thresholds: strings of N in {2..7, 15..17, 99..101, 255..257, 315..318, 511, 513, 1000, 1001, 1023..1025, 2047, '
        '2049, 4097} images (defaults, arc coordinates, one step of a straight string in a valley with / without climbing images, '
        'interpolation on a quarter circle) and N in {1023..1025, 2047..2049, 4095, 4097, 8193, 65537} points at once through '
        'central_difference / euler / rungekutta. '
        'distinct = distinct canonical input line / (state, operation); non-trivial = A, y non-zero and h != 0, at least '
        'two images')
ASSUMPTIONS = ['IEEE double rounding of the implementation is bounded by rtol 1e-9 on the dyadic integrator inputs (|.|<=8, '
               'dim<=6); for path objects by first-order bounds derived from the expression: 32 eps sum|terms of f| / shift '
               'for a central difference, stages * (1 + h L)^(stages-1) * h * that for an integrator step, 1e3 eps max|coord| '
               'for the spline evaluated at a knot',
               'numpy matmul/einsum/linalg.norm compute the mathematical contraction / Euclidean norm',
               'scipy CubicSpline interpolates its knots (ends and climbing images keep the integrator\'s coordinates); the '
               're-spaced interior images are outside the model',
               'the square root is a parameter of the model (hypothesis sqrt x * sqrt x = x); the driver uses a rational '
               'square root accurate to 2^-64',
               'Real.exp is the flow of y\' = a y (Mathlib), used only in the two one-step error theorems']
TRUSTED = ['numpy (rate function A@y, einsum, norm) and scipy CubicSpline at its knots in the correspondence run',
           'the reading of numpy array programs as list programs by the translator of Generated/PathSource.lean: slices x[a:], '
           'x[:-b] as drop / dropLast, element-wise operations of equally long slices as zipWith, (x.T / norm(x)).T as a '
           'row-wise map, np.hstack as append, np.arange(n)[mask] as the indices of the true flags, s = zeros(n); s[1:] = x as '
           'zeros(n)[:1] ++ x, `for i in range(n): body; if test: break` as the recursion genLoop; the three row assignments '
           'of unittangent as head ++ middle ++ last (strings of two or more images)',
           'statement pins (not definitions): the segment loop of ISMPath.step (startindices / endindices / linspace per '
           'segment: genStepSegmentPins, tied to respaceTargets by observing the array handed to interpolate_path), the two '
           'integrator calls of step (matched literally by the translator, TranslationError otherwise)']


def _np():
    import numpy as np
    return np


def _gen_linear(rng, dim):
    A = [[cm.dyadic(rng, -2, 2, 2) for _ in range(dim)] for _ in range(dim)]
    y = [cm.dyadic(rng, -4, 4, 2) for _ in range(dim)]
    h = rng.choice([0.5, 0.25, 0.125, 1.0, 0.0625, 0.1, 0.05, -0.25])
    return A, y, h


# scale sweeps: the state in another unit (2^k: exact in binary floating point, so a correct integrator returns the
# bit-wise scaled result; decimal factors such as 1e-9 — lengths in metres — to rounding)
_SCALE_EXPS = [-60, -50, -40, -34, -30, -27, -24, -20, -10, -3, 3, 10, 20, 30, 40, 60]
_DEC_SCALES = [1e-9, 1e-10, 1e-12, 1e-15, 1e9, 3.0, -1.0, -2.0 ** -30, -1e-9]
# far out: a linear step forms no squares, so the state may sit anywhere in the double range
_FAR_EXPS = [-1000, -900, -500, -200, -100, 100, 200, 500, 900]
# paths: energies and squared lengths go with the square of the unit of length
_UNIT_EXPS = _SCALE_EXPS + [-300, -200, -100, 100, 200, 300]


def _gen_integ_array(rng):
    """an array of points (one per row, each with its own matrix) advanced in one call; the matrices / a gain reach the
    rate function through the keyword arguments of the step in most cases (defaults: zero matrices, gain 0)."""
    dim = rng.choice([1, 2, 2, 3, 4])
    nrows = rng.choice([1, 2, 3, 3, 5])
    mode = rng.choice(['plain', 'kw-mats', 'kw-gain', 'kw-both'])
    return {'op': 'integ-array',
            'As': [[[cm.dyadic(rng, -2, 2, 2) for _ in range(dim)] for _ in range(dim)] for _ in range(nrows)],
            'Y': [[cm.dyadic(rng, -4, 4, 2) for _ in range(dim)] for _ in range(nrows)],
            'h': rng.choice([0.5, 0.25, 0.125, 0.0625, 0.1, -0.25, 0.0]), 'mode': mode,
            'gain': rng.choice([0.5, 2.0, -1.0, 0.25, 1.5]) if mode in ('kw-gain', 'kw-both') else 1.0,
            'exp': rng.choice([0, 0, 0] + _SCALE_EXPS + _FAR_EXPS), 'vector': nrows == 1 and rng.random() < 0.5,
            'container': rng.choice(['array', 'array', 'list', 'tuple', 'float32', 'intarray', 'fortran', 'strided', 'readonly']),
            'h_as': rng.choice([None, None, 'np64', 'np32', '0d']),
            'rate_returns': rng.choice(['fresh', 'fresh', 'buffer', 'buffer', 'buffer-view', 'readonly'])}


def _integ_array_call(case, name):
    """the implementation on the case -> (rows | ('raise', type, text), input array left untouched?)."""
    np = _np()
    from atomman.mep.integrator import euler, rungekutta
    f = euler if name == 'euler' else rungekutta
    As = np.array(case['As'], dtype=float)
    Y = np.array(case['Y'], dtype=float) * 2.0 ** case['exp']
    Z = np.zeros_like(As)
    vec = case.get('vector', False)

    def apply(mats, C):
        return mats[0] @ C if vec else np.einsum('nij,nj->ni', mats, C)

    def rate_plain(C):
        return apply(As, C)

    def rate_mats(C, mats=Z):
        return apply(mats, C)

    def rate_gain(C, gain=0.0):
        return gain * apply(As, C)

    def rate_both(C, gain=0.0, mats=Z):
        return gain * apply(mats, C)
    rate0, kw = {'plain': (rate_plain, {}), 'kw-mats': (rate_mats, {'mats': As}), 'kw-gain': (rate_gain, {'gain': case['gain']}),
                 'kw-both': (rate_both, {'gain': case['gain'], 'mats': As})}[case['mode']]
    base = (Y[0] if vec else Y).copy()
    # how the rate function hands its value back: a fresh array | the SAME preallocated work array on every call (the
    # `out=` idiom: np.dot(A, y, out=self.buf); return self.buf) | a view into one larger work array | a read-only array
    rr = case.get('rate_returns', 'fresh')
    work = np.full((2,) + base.shape, np.nan)

    def rate(C, **k_):
        r = rate0(C, **k_)
        if rr == 'fresh' or np.shape(r) != base.shape:
            return r
        if rr == 'readonly':
            r = np.array(r, dtype=float)
            r.setflags(write=False)
            return r
        out = work[1] if rr == 'buffer-view' else work[0]
        out[...] = r
        return out
    cont = case.get('container', 'array')
    if cont == 'intarray' and not (case['exp'] == 0 and bool((base == np.rint(base)).all())):
        cont = 'array'
    if cont == 'float32' and not bool((base.astype(np.float32).astype(float) == base).all()):
        cont = 'array'
    if cont == 'intarray':
        Yin = base.astype(np.int64)
    elif cont == 'float32':
        Yin = base.astype(np.float32)
    elif cont in ('list', 'tuple'):
        Yin = Runner._coord_value(base.tolist(), cont) if base.ndim == 2 else (base.tolist() if cont == 'list' else tuple(base.tolist()))
    elif cont in ('fortran', 'strided', 'readonly') and base.ndim == 2:
        Yin = Runner._coord_value(base.tolist(), cont)
    elif cont == 'readonly':
        Yin = base.copy()
        Yin.setflags(write=False)
    else:
        Yin = base.copy()
    isarr = isinstance(Yin, np.ndarray)
    keep = np.array(Yin, dtype=float)
    h = _h_form(case['h'], case.get('h_as'))
    try:
        with np.errstate(all='ignore'):
            raw = f(rate, Yin, h, **kw)
            out = np.array(raw, dtype=float)
            # the result is the caller's: it shares no memory with the input and a second call leaves it alone
            fresh = not (isarr and isinstance(raw, np.ndarray) and np.shares_memory(raw, Yin))
            raw2 = f(rate, base * 0.5 + 0.25, h, **kw)
            if isinstance(raw, np.ndarray) and isinstance(raw2, np.ndarray):
                fresh = fresh and not np.shares_memory(raw, raw2) and bool(np.array_equal(np.array(raw, dtype=float), out, equal_nan=True))
    except Exception as e:  # noqa: an observation
        return ('raise', type(e).__name__, str(e)[:200]), True
    if out.shape != base.shape:
        return ('shape', str(out.shape), ''), True
    if not fresh:
        return ('alias', 'the array returned shares memory with the input array or with the array returned by the next call', ''), True
    untouched = bool(np.array_equal(np.array(Yin, dtype=float), keep)) and (not isarr or Yin.dtype == {'intarray': np.int64, 'float32': np.float32}.get(cont, np.float64))
    return out.reshape(len(case['Y']), -1), untouched


def _integ_array_want(case, name):
    """exact rows: the Taylor polynomial of exp(h g A_n) applied to row n."""
    c = Fraction(2) ** case['exp']
    g = Fraction(case['gain'])
    return [_taylor([[g * Fraction(v) for v in r] for r in A], [Fraction(v) * c for v in y], case['h'], 1 if name == 'euler' else 4)
            for A, y in zip(case['As'], case['Y'])]


def _integ_array_check(case, name, got, want):
    if isinstance(got, tuple):
        return f'raised {got[1]}: {got[2]}' if got[0] == 'raise' else (got[1] if got[0] == 'alias' else f'returned shape {got[1]}')
    atol = 1e-11 * 2.0 ** case['exp']
    for n, (r, w) in enumerate(zip(got, want)):
        if not cm.allclose(list(r), w, rtol=1e-9, atol=atol):
            return (f'row {n} (A = {case["As"][n]}, y = {[v * 2.0 ** case["exp"] for v in case["Y"][n]]}) is {r.tolist()}, the degree-'
                    f'{1 if name == "euler" else 4} Taylor polynomial of exp(h·{case["gain"]}·A) y is {[_fl(v) for v in w]}')
    return None


def _describe_integ_array(case, name):
    how = {'plain': 'the matrices bound in the rate function', 'kw-mats': 'the matrices handed as keyword argument mats= of the step',
           'kw-gain': f'gain={case["gain"]} handed as keyword argument of the step', 'kw-both': f'gain={case["gain"]} and mats= handed as '
           'keyword arguments of the step'}[case['mode']]
    return (f'{name}(rate, Y, h={case["h"]}{"/" + case["h_as"] if case.get("h_as") else ""}, …) ' + ({'buffer': 'with a rate function that returns ONE preallocated work array on every call, ', 'buffer-view': 'with a rate function that returns a view into one work array on every call, ', 'readonly': 'with a rate function that returns read-only arrays, '}.get(case.get('rate_returns'), '')) + 'on '
            f'{"a vector" if case.get("vector") else f"an array of {len(case["Y"])} points"} ({case.get("container", "array")}) in dimension '
            f'{len(case["Y"][0])} at scale 2^{case["exp"]}, row-wise linear rate y_n\' = g A_n y_n with {how}')


class _Selection:
    """`relax` with a scripted `step`: the image energies are tabulated per image (they change with every relaxation
    step performed), so the climbing images `relax` hands to `step` are observable."""

    @staticmethod
    def gen(rng):
        n = rng.choice([2, 3, 3, 4, 5, 5, 6, 7, 8])
        rs, cs = rng.randint(0, 3), rng.randint(1, 3)
        vals = rng.choice([[0.0, 1.0, 2.0], [0.0, 0.5, 1.0, 1.5, 2.0, 3.0], [-1.0, 0.0, 1.0, 1.0, 2.0]])
        tables = [[rng.choice(vals) for _ in range(n)] for _ in range(rs + 1)]
        if rng.random() < 0.3:       # a barrier shape with a plateau or a tie at the top
            k = rng.randrange(n)
            tables[-1] = [float(-abs(i - k)) for i in range(n)]
            if rng.random() < 0.5 and k + 1 < n:
                tables[-1][k + 1] = tables[-1][k]
        how = rng.random()
        last = tables[-1]
        if how < 0.25:              # two neighbouring images within 2^-20 … 2^-50 (relative) of each other, or of zero
            i = rng.randrange(n - 1)
            eps = 2.0 ** -rng.choice([20, 30, 40, 50])
            last[i + 1] = last[i] * (1 + rng.choice([-1, 1]) * eps) if last[i] else rng.choice([-1, 1]) * eps
        elif how < 0.35:            # an energy function that overflows / fails on one or two images
            i = rng.randrange(n)
            last[i] = rng.choice([float('inf'), float('inf'), float('-inf'), float('nan')])
            if rng.random() < 0.5 and i + 1 < n:
                last[i + 1] = last[i]
        e = rng.choice([0, 0, 0, -1000, -200, -60, -30, 30, 200, 1000])
        if e:                       # the same energies in another unit (comparisons only: any power of two in range)
            tables = [[v * 2.0 ** e for v in t] for t in tables]
        return {'op': 'climb-selection', 'n': n, 'relaxsteps': rs, 'climbsteps': cs, 'tables': tables,
                'climbpoints': rng.choice([None, None, 1, 2, 3, 0, n]), 'exp': e}

    @staticmethod
    def run(case):
        """-> (energies in force when the climbing images are chosen, list of climbindex values seen by step)"""
        np = _np()
        from atomman.mep import ISMPath
        state = {'nr': 0, 'seen': []}
        tables = np.array(case['tables'], dtype=float)

        class Scripted(ISMPath):
            def step(self, timestep=None, climbindex=None):
                if climbindex is None:
                    state['nr'] += 1
                else:
                    state['seen'].append([int(i) for i in np.atleast_1d(np.asarray(climbindex)).ravel()])
                new = self.coord.copy()
                new[0, 1] += 1.0        # the number of steps this string has behind it
                return Scripted(new, self.energyfxn, gradientfxn=self.gradientfxn, gradientkwargs={})

        def energy(p):
            p = np.asarray(p)
            return tables[min(int(np.rint(p[0, 1])), len(tables) - 1)][np.rint(p[..., 0]).astype(int)]
        coord = np.array([[float(i), 0.0] for i in range(case['n'])])
        path = Scripted(coord, energy, gradientfxn=(lambda f, c: np.zeros_like(c)), gradientkwargs={})
        kw = {} if case['climbpoints'] is None else {'climbpoints': case['climbpoints']}
        try:
            with np.errstate(all='ignore'):
                path.relax(relaxsteps=case['relaxsteps'], climbsteps=case['climbsteps'], timestep=0.5, tolerance=0.0,
                           verbose=False, **kw)
        except Exception as e:  # noqa
            return None, ('raise', type(e).__name__, str(e)[:200])
        return case['tables'][min(state['nr'], len(tables) - 1)], state['seen']

    @staticmethod
    def want(E, cp):
        # the documented test in IEEE arithmetic: above the previous image and not below the next one; an image whose
        # energy is nan, or whose neighbour's energy is nan, is not a maximum (every comparison with nan is false)
        idx = [i for i in range(1, len(E) - 1) if E[i] > E[i - 1] and E[i] >= E[i + 1]]
        return idx[:(1 if cp is None else cp)]

    @staticmethod
    def verdict(case, E, seen, want):
        if isinstance(seen, tuple):
            return f'relax raised {seen[1]}: {seen[2]}'
        if len(seen) != case['climbsteps']:
            return f'{len(seen)} climbing steps were performed instead of {case["climbsteps"]}'
        for k, s in enumerate(seen):
            if s != want:
                return (f'climbing step {k} was handed climbindex={s}; the image energies after the relaxation steps are {E}: '
                        f'the first {1 if case["climbpoints"] is None else case["climbpoints"]} interior images above the previous and '
                        f'not below the next image are {want}')
        return None


# ----------------------------------------------------------------------------------------
# construction: every combination of good / bad arguments (which exception, what is selected)
# ----------------------------------------------------------------------------------------
_CT_ENERGY = ['callable', 'callable', 'callable', 'number', 'None', 'str']
_CT_STYLE = ['-', '-', 'ISM', 'improved_string_method', 'ism', 'NEB', '', 'ISM ', 'None']
_CT_GFX = ['-', '-', 'cdiff', 'central_difference', 'callable', 'CDIFF', 'cd', 'central-difference', '', 'int', 'None', 'list']
_CT_KW = ['-', '-', 'None', 'empty', 'dict', 'list', 'zero', 'tuple', 'str']
_CT_IFX = ['-', '-', 'rk', 'rungekutta', 'euler', 'callable', 'RK', 'Euler', 'verlet', 'rk4', '', 'int', 'None']
_CT_VIA = ['create_path', 'create_path', 'create_path:positional', 'ISMPath', 'ISMPath:positional', 'BasePath']


def _gen_ctor(rng):
    return {'energy': rng.choice(_CT_ENERGY), 'style': rng.choice(_CT_STYLE), 'gfx': rng.choice(_CT_GFX),
            'kw': rng.choice(_CT_KW), 'ifx': rng.choice(_CT_IFX), 'via': rng.choice(_CT_VIA)}


def _ctor_values(case):
    np = _np()
    def energy(c):
        return (np.asarray(c) ** 2).sum(-1)
    def gfx(f, c, **kw):
        return 2 * np.asarray(c, dtype=float)
    def ifx(r, c, h, **kw):
        return c + h * r(c, **kw)
    e = {'callable': energy, 'number': 3.0, 'None': None, 'str': 'energy'}[case['energy']]
    g = {'callable': gfx, 'int': 5, 'None': None, 'list': [1]}.get(case['gfx'], case['gfx'])
    i = {'callable': ifx, 'int': 3, 'None': None}.get(case['ifx'], case['ifx'])
    k = {'None': None, 'empty': {}, 'dict': {'shift': 1e-4}, 'list': [], 'zero': 0, 'tuple': (), 'str': ''}.get(case['kw'])
    st = None if case['style'] == 'None' else case['style']
    return e, st, g, k, i, gfx, ifx


def _ctor_run(case):
    """the implementation: ('ok', gradient function selected, integrator selected, own settings dictionary?) | ('err', class)"""
    np = _np()
    import atomman as am
    from atomman.mep import ISMPath, BasePath, create_path
    from atomman.mep.gradient import central_difference
    from atomman.mep.integrator import euler, rungekutta
    e, st, g, k, i, gfx, ifx = _ctor_values(case)
    coord = np.array([[0.0, 1.0], [1.0, 0.5], [2.0, 0.0]])
    via = case['via']
    opts = []
    if via.startswith('create_path') and case['style'] != '-':
        opts.append(('style', st))
    if case['gfx'] != '-':
        opts.append(('gradientfxn', g))
    if case['kw'] != '-':
        opts.append(('gradientkwargs', k))
    if case['ifx'] != '-':
        opts.append(('integratorfxn', i))
    fn = {'create_path': create_path, 'ISMPath': ISMPath, 'BasePath': BasePath}[via.split(':')[0]]
    try:
        if via.endswith(':positional'):
            # positional in the documented order, defaults filled in up to the last argument given
            order = (['style'] if via.startswith('create_path') else []) + ['gradientfxn', 'gradientkwargs', 'integratorfxn']
            dflt = {'style': 'ISM', 'gradientfxn': 'cdiff', 'gradientkwargs': None, 'integratorfxn': 'rk'}
            given = dict(opts)
            last = max([order.index(n) for n in given], default=-1)
            p = fn(coord, e, *[given.get(n, dflt[n]) for n in order[:last + 1]])
        else:
            p = fn(coord, e, **dict(opts))
    except Exception as ex:  # noqa
        return ('err', type(ex).__name__, str(ex)[:80])
    gsel = 'central_difference' if p.gradientfxn is central_difference else ('user' if p.gradientfxn is gfx else '?')
    isel = 'rungekutta' if p.integratorfxn is rungekutta else 'euler' if p.integratorfxn is euler else \
        ('user' if p.integratorfxn is ifx else '?')
    own = not (isinstance(k, dict) and case['kw'] != '-' and p.gradientkwargs is k)
    if own and p.gradientkwargs != {}:
        return ('ok', gsel, isel, 'own settings not empty: %r' % (p.gradientkwargs,))
    return ('ok', gsel, isel, 1 if own else 0)


def _ctor_line(case):
    def fx(v):
        return '-' if v == '-' else 'c' if v == 'callable' else 'o' if v in ('int', 'None', 'list') else 'n:' + v.replace(' ', '_')
    kw = {'-': '-', 'None': 'none', 'empty': 'dict', 'dict': 'dict'}.get(case['kw'], 'other')
    style = '-' if (case['style'] == '-' or not case['via'].startswith('create_path')) else 's:' + case['style'].replace(' ', '_')
    return f'ctor {1 if case["energy"] == "callable" else 0} {style} {fx(case["gfx"])} {kw} {fx(case["ifx"])}'


def _ctor_oracle(case):
    """the documented behaviour, independent of Lean: style first, then energyfxn, gradientfxn, integratorfxn, settings."""
    if case['via'].startswith('create_path') and case['style'] not in ('-', 'ISM', 'improved_string_method'):
        return ('err', 'ValueError')
    if case['energy'] != 'callable':
        return ('err', 'TypeError')
    sel = []
    for v, names in ((case['gfx'], {'-': 'central_difference', 'cdiff': 'central_difference',
                                   'central_difference': 'central_difference'}),
                     (case['ifx'], {'-': 'rungekutta', 'rk': 'rungekutta', 'rungekutta': 'rungekutta', 'euler': 'euler'})):
        if v == 'callable':
            sel.append('user')
        elif v in ('int', 'None', 'list'):
            return ('err', 'TypeError')
        elif v in names:
            sel.append(names[v])
        else:
            return ('err', 'ValueError')
    if case['kw'] in ('-', 'None'):
        return ('ok', sel[0], sel[1], 1)
    if case['kw'] in ('empty', 'dict'):
        return ('ok', sel[0], sel[1], 0)
    return ('err', 'TypeError')


def _ctor_describe(case):
    return (f'{case["via"]}(coord, energyfxn=<{case["energy"]}>, style={case["style"]!r}, gradientfxn=<{case["gfx"]}>, '
            f'gradientkwargs=<{case["kw"]}>, integratorfxn=<{case["ifx"]}>) ("-" = left out)')


def _ctor_compare(got, want):
    if want[0] == 'err':
        return got[0] == 'err' and got[1] == want[1]
    return tuple(got) == tuple(want)


def correspond(ctx):
    np = _np()
    from atomman.mep.integrator import euler, rungekutta
    from atomman.mep.gradient import central_difference
    rng = ctx.rng
    N = ctx.n(300, 5000)
    lines, checks = [], []
    for it in range(N):
        dim = 1 + it % 6
        A, y, h = _gen_linear(rng, dim)
        An, yn = np.array(A), np.array(y)
        e = rng.choice(_SCALE_EXPS + _FAR_EXPS)
        for name, f in (('euler', euler), ('rk', rungekutta)):
            impl = f(lambda c: An @ c, yn, h)
            line = f'{name} {dim} ' + cm.frs(An) + ' ' + cm.frs(yn) + ' ' + cm.fr(h)
            lines.append(line)
            checks.append((name, line, list(impl), {'A': A, 'y': y, 'h': h}))
            ctx.stats.case(name, line, nontrivial=bool(An.any() and yn.any() and h != 0),
                           sample={'op': name, 'A': A, 'y': y, 'h': h})
            # the same state in another unit (y·2^e), and the same law in another unit of time (A·2^e, h·2^-e)
            ys = yn * 2.0 ** e
            for tag, Am, ym, hm, se in (('scaled-y', An, ys, h, e), ('scaled-time', An * 2.0 ** e, yn, h * 2.0 ** -e, 0)):
                try:
                    impl = list(f(lambda c, Am=Am: Am @ c, ym, hm))
                except Exception as ex:  # noqa
                    ctx.disagree(f'{name}:raises', f'{name} raised {type(ex).__name__}: {ex} (A={Am.tolist()}, y={ym.tolist()}, h={hm})',
                                 {'op': 'euler' if name == 'euler' else 'rungekutta', 'A': Am.tolist(), 'y': ym.tolist(), 'h': hm})
                    continue
                line = f'{name} {dim} ' + cm.frs(Am) + ' ' + cm.frs(ym) + ' ' + cm.fr(hm)
                lines.append(line)
                checks.append((name, line, impl, {'A': Am.tolist(), 'y': ym.tolist(), 'h': hm, 'scale_exp': se}))
                ctx.stats.case(name + ':' + tag, line, nontrivial=bool(An.any() and yn.any() and h != 0),
                               sample={'op': name, 'A': Am.tolist(), 'y': ym.tolist(), 'h': hm, 'scale': f'2^{e}'})
    # arrays of points advanced in one call, row n by its own law, parameters through the step's keyword arguments
    for it in range(ctx.n(120, 1500)):
        case = _gen_integ_array(rng)
        for name in ('euler', 'rk'):
            got, untouched = _integ_array_call(case, name)
            g, c = Fraction(case['gain']), Fraction(2) ** case['exp']
            rowlines = [f'{name} {len(y)} ' + cm.frs([g * Fraction(v) for r in A for v in r]) + ' ' + cm.frs([Fraction(v) * c for v in y])
                        + ' ' + cm.fr(case['h']) for A, y in zip(case['As'], case['Y'])]
            ctx.stats.case(name + ':array', (name, repr(case)), sample={'op': name, 'rows': len(case['Y']), 'dim': len(case['Y'][0]),
                                                                         'mode': case['mode'], 'scale': f'2^{case["exp"]}'})
            lines.extend(rowlines)
            checks.append(('integ-array', rowlines, (case, name, got), dict(case, integrator=name)))
            checks.extend([None] * (len(rowlines) - 1))
    # construction: create_path / ISMPath / BasePath with every combination of good and bad arguments
    for it in range(ctx.n(250, 3000)):
        case = _gen_ctor(rng)
        got = _ctor_run(case)
        out = ctx.driver.ask(_ctor_line(case))
        if out.startswith('ok'):
            t = out.split()
            want = ('ok', t[1], t[2], int(t[3]))
        elif out in ('err:value', 'err:type'):
            want = ('err', {'err:value': 'ValueError', 'err:type': 'TypeError'}[out])
        else:
            want = ('model', out)
        ctx.stats.case('construct', repr(sorted(case.items())), nontrivial=True, sample=dict(case, result=list(got)))
        if not _ctor_compare(got, want):
            ctx.disagree('path:construct', f'{_ctor_describe(case)}: the implementation gives {got}, the model (createPath) {want}',
                         {'op': 'ctor', 'case': case})
    # choice of the climbing images by relax
    for it in range(ctx.n(150, 1500)):
        case = _Selection.gen(rng)
        E, seen = _Selection.run(case)
        cp = 1 if case['climbpoints'] is None else case['climbpoints']
        if E is not None and not all(math.isfinite(v) for v in E):
            continue                    # inf / nan energies: outside the ordered field of the model (oracle side only)
        out = ctx.driver.ask(f'climbsel {cp} ' + cm.frs(E)) if E is not None else 'sel'
        want = [int(t) for t in out.split()[1:]] if out.startswith('sel') else None
        ctx.stats.case('climb-selection', repr(case), nontrivial=bool(want), sample=dict(case, chosen=want))
        why = f'model refused: {out}' if want is None else _Selection.verdict(case, E, seen, want)
        if why is not None:
            ctx.disagree('relax:climb-selection', f'relax(relaxsteps={case["relaxsteps"]}, climbsteps={case["climbsteps"]}, climbpoints='
                         f'{case["climbpoints"]}) on {case["n"]} images: {why}', case)
    for it in range(N):
        dim = 1 + it % 4
        a = [cm.dyadic(rng, -2, 2, 2) for _ in range(dim)]
        b = [cm.dyadic(rng, -2, 2, 2) for _ in range(dim)]
        c = [cm.dyadic(rng, -2, 2, 2) for _ in range(dim)]
        m = cm.dyadic(rng, -2, 2, 1)
        x = [cm.dyadic(rng, -2, 2, 3) for _ in range(dim)]
        s = rng.choice([0.5, 0.25, 0.125, 2.0 ** -10, -0.25, -2.0 ** -7])
        an, bn, cn = np.array(a), np.array(b), np.array(c)

        def fxn(v, an=an, bn=bn, cn=cn, m=m):
            return (an * v + bn * v * v + cn * v * v * v).sum(axis=-1) + m * v[..., 0] * v[..., -1]
        impl = central_difference(fxn, np.array(x), s)
        for i in range(dim):
            line = f'cd {dim} {i} ' + ' '.join(map(cm.frs, (a, b, c, x))) + f' {cm.fr(m)} {cm.fr(s)}'
            lines.append(line)
            checks.append(('cd', line, [impl[i]], {'a': a, 'b': b, 'c': c, 'm': m, 'x': x, 'shift': s, 'i': i}))
            ctx.stats.case('cd', line, sample={'op': 'central_difference', 'x': x, 'shift': s, 'i': i})
    # climbing rate formula
    for it in range(ctx.n(100, 1000)):
        dim = 1 + it % 4
        g = [cm.dyadic(rng, -2, 2, 2) for _ in range(dim)]
        tau = [cm.dyadic(rng, -1, 1, 2) for _ in range(dim)]
        G, Tn = np.array([g]), np.array([tau])
        impl = (-G + 2 * np.einsum('ij,ij,il->il', G, Tn, Tn))[0]
        line = f'climb {dim} ' + cm.frs(g) + ' ' + cm.frs(tau)
        lines.append(line)
        checks.append(('climb-formula', line, list(impl), {'g': g, 'tau': tau}))
    # central_difference on coordinate arrays of every leading shape
    for it in range(ctx.n(150, 2000)):
        case = _gen_cd_array(rng)
        got, poly = _cd_array_call(case)
        s_ = Fraction('1e-5') if case['shift'] is None else Fraction(case['shift'])
        line = (f'cda {poly.dim} {len(case["pts"])} {cm.fr(s_)} {poly.wire()} ' + ' '.join(cm.frs(r) for r in case['pts']))
        lines.append(line)
        checks.append(('cd-array', line, (case, got, poly), case))
        ctx.stats.case('cd-array', line, nontrivial=len(case['pts']) > 0,
                       sample={'op': 'central_difference', 'leading_shape': case['lead'], 'dim': poly.dim, 'shift': case['shift']})
    outs = ctx.driver.ask_many(lines)
    _relax_flow(ctx, rng)
    for it in range(ctx.n(120, 1500)):
        ops = _gen_sequence(rng, rng.randint(3, 8))
        _run_sequence(ctx, ops, 'lean', f'sequence {it}')
    for k, (chk, out) in enumerate(zip(checks, outs)):
        if chk is None:
            continue
        name, line, impl, info = chk
        if name == 'integ-array':
            case, iname, got = impl
            rows = outs[k:k + len(line)]
            if any(o.startswith('err:') for o in rows):
                ctx.disagree('integ-array:driver-error', f'model refused {rows}', {'lines': line})
                continue
            full = 'euler' if iname == 'euler' else 'rungekutta'
            why = _integ_array_check(case, full, got, [cm.unfrs(o) for o in rows])
            if why is not None:
                ctx.disagree(f'{full}:array', f'{_describe_integ_array(case, full)}: {why}', dict(case, integrator=full))
            continue
        if out.startswith('err:'):
            ctx.disagree(f'{name}:driver-error', f'model refused {name}: {out}', {'line': line, 'impl': impl})
            continue
        model = cm.unfrs(out)
        if name == 'cd-array':
            case, got, poly = impl
            why = _cd_array_check(case, got, poly, want_flat=model)
            if why is not None:
                ctx.disagree('cd-array', f'central_difference on an array of shape {tuple(case["lead"]) + (poly.dim,)} '
                             f'(shift {case["shift"]}): {why}', dict(case, impl=None if isinstance(got, tuple) else got.tolist()))
            continue
        if not cm.allclose(impl, model, rtol=1e-9, atol=1e-12 * 2.0 ** info.get('scale_exp', 0)):
            ctx.disagree(name, f'{name}: implementation {impl} != model {[float(v) for v in model]}',
                         {'op': name, 'input': info, 'impl': [float(v) for v in impl],
                          'model': [str(v) for v in model]})


def _phase_count(n, tol, ds):
    """steps a phase of relax performs: at most n, stopping right after the first displacement measure below tol."""
    k = 0
    for d in ds[:n]:
        k += 1
        if d < tol:
            break
    return k


def _relax_flow_run(rs, cs, tol, dr, dc):
    """relax with a scripted step (image 1 moves by d * timestep): (relaxation steps, climbing steps) performed."""
    np = _np()
    from atomman.mep import ISMPath
    sc = {'nr': 0, 'nc': 0}

    class Scripted(ISMPath):
        def step(self, timestep=None, climbindex=None):
            if climbindex is None:
                d = dr[sc['nr']] if sc['nr'] < len(dr) else 2.0
                sc['nr'] += 1
            else:
                d = dc[sc['nc']] if sc['nc'] < len(dc) else 2.0
                sc['nc'] += 1
            new = self.coord.copy()
            new[1, 0] += d * timestep
            return Scripted(new, self.energyfxn, gradientfxn=self.gradientfxn, gradientkwargs={})

    def energy(p):
        return -(p[..., 0] - 0.3) ** 2 - p[..., 1] ** 2
    coord = np.array([[-1.0, 0.0], [0.25, 0.5], [1.0, 0.0]])
    path = Scripted(coord, energy, gradientfxn=(lambda f, c: np.zeros_like(c)), gradientkwargs={})
    try:
        path.relax(relaxsteps=rs, climbsteps=cs, timestep=0.5, tolerance=tol, verbose=False)
    except Exception as e:  # noqa: an observation
        return ('raise', type(e).__name__, str(e)[:200])
    return (sc['nr'], sc['nc'])


def _relax_flow(ctx, rng, lean=True):
    """control flow of ISMPath.relax against the Lean `phaseSteps` model (lean=True) / the documented loop counted in
    Python (lean=False): `step` is replaced by a scripted displacement sequence, so the number of relaxation / climbing
    steps performed is observable. The measures include exact ties with the tolerance."""
    for it in range(ctx.n(150, 1500)):
        rs, cs = rng.randint(0, 6), rng.randint(0, 6)
        tol = rng.choice([0.5, 0.25, 1.0])
        mk = lambda n: [rng.choice([2.0, 1.0, 0.75, 0.125, 0.0625, 0.5, 0.25]) for _ in range(n)]
        dr, dc = mk(rs), mk(cs)
        got = _relax_flow_run(rs, cs, tol, dr, dc)
        if lean:
            m1 = ctx.driver.ask(f'phase {rs} {cm.fr(tol)} ' + cm.frs(dr))
            m2 = ctx.driver.ask(f'phase {cs} {cm.fr(tol)} ' + cm.frs(dc))
        else:
            m1, m2 = str(_phase_count(rs, tol, dr)), str(_phase_count(cs, tol, dc))
        ctx.stats.case('relax-flow' if lean else 'oracle:relax-flow', (rs, cs, tol, tuple(dr), tuple(dc)), nontrivial=rs + cs > 0,
                       sample={'op': 'relax-flow', 'relaxsteps': rs, 'climbsteps': cs, 'tolerance': tol,
                               'd_relax': dr, 'd_climb': dc, 'steps_done': got})
        if (str(got[0]), str(got[1])) != (m1, m2) or len(got) != 2:
            (ctx.disagree if lean else ctx.violate)(
                'relax-flow' if lean else 'relax:flow',
                f'relax(relaxsteps={rs}, climbsteps={cs}, timestep=0.5, tolerance={tol}) on a path whose steps move one image by '
                f'{dr} (relaxation) / {dc} (climbing) times the time step performed {got} steps; stopping right after the first '
                f'measure below the tolerance gives ({m1}, {m2})',
                {'op': 'relax-flow', 'relaxsteps': rs, 'climbsteps': cs, 'tol': tol, 'dr': dr, 'dc': dc,
                 'impl': list(got), 'model': [m1, m2]})


# ----------------------------------------------------------------------------------------
# search: the property's own clauses evaluated on the real code (exact rational oracle)
# ----------------------------------------------------------------------------------------
def _taylor(A, y, h, deg):
    """sum_{k<=deg} (hA)^k y / k!  with Fractions."""
    n = len(y)
    A = [[Fraction(v) for v in r] for r in A]
    term = [Fraction(v) for v in y]
    tot = list(term)
    hh = Fraction(h)
    for k in range(1, deg + 1):
        term = [hh * sum(A[i][j] * term[j] for j in range(n)) / k for i in range(n)]
        tot = [a + b for a, b in zip(tot, term)]
    return tot


def search(ctx, broken):
    np = _np()
    from atomman.mep.integrator import euler, rungekutta
    from atomman.mep.gradient import central_difference
    rng = random.Random(ctx.seed + 1)
    N = ctx.n(200, 3000) * (3 if broken else 1)
    for it in range(N):
        dim = 1 + it % 6
        A, y, h = _gen_linear(rng, dim)
        An, yn = np.array(A), np.array(y)
        for name, f, deg in (('euler', euler, 1), ('rungekutta', rungekutta, 4)):
            yin = yn.copy()
            try:
                impl = f(lambda c: An @ c, yin, h)
            except Exception as e:  # noqa
                ctx.violate(f'{name}:raises', f'{name}(A@y, y={y}, h={h}) raised {type(e).__name__}: {e}',
                            {'op': name, 'A': A, 'y': y, 'h': h})
                continue
            want = _taylor(A, y, h, deg)
            ctx.stats.case('oracle:' + name, (A, y, h))
            if not np.array_equal(yin, yn):
                ctx.violate(f'{name}:mutates-input', f'{name} overwrote the coordinate array it was given: y = {y} became '
                            f'{yin.tolist()} (A = {A}, h = {h}); a second step from the same y starts from the wrong point',
                            {'op': name, 'A': A, 'y': y, 'h': h, 'y_after': yin.tolist()})
            if not cm.allclose(impl, want, rtol=1e-9, atol=1e-11):
                ctx.violate(f'{name}:taylor', f'{name} on y\'=Ay is not the degree-{deg} Taylor polynomial of exp(hA) y: '
                            f'got {list(map(float, impl))}, expected {[float(w) for w in want]}',
                            {'op': name, 'A': A, 'y': y, 'h': h, 'impl': list(map(float, impl)),
                             'expected': [str(w) for w in want]})
                continue
            # the same law written with the `out=` idiom: the rate function fills ONE preallocated array and returns it on
            # every call (every stage value must have been used -- or copied -- before the next evaluation)
            buf = np.empty(dim)

            def rate_buf(c, buf=buf):
                np.dot(An, c, out=buf)
                return buf
            ctx.stats.case('oracle:' + name + ':buffer-rate', (A, y, h))
            try:
                impl_b = np.array(f(rate_buf, yn.copy(), h), dtype=float)
            except Exception as e:  # noqa
                ctx.violate(f'{name}:raises', f'{name}(rate, y={y}, h={h}) with rate = lambda y: (np.dot(A, y, out=buf), buf)[1] '
                            f'raised {type(e).__name__}: {e}', {'op': name, 'A': A, 'y': y, 'h': h, 'rate': 'buffer'})
                continue
            if impl_b.shape != yn.shape or not cm.allclose(impl_b, want, rtol=1e-9, atol=1e-11):
                ctx.violate(f'{name}:taylor', f'{name} on y\'=Ay, A = {A}, y = {y}, h = {h}, with the rate function written as '
                            f'np.dot(A, y, out=buf); return buf (one preallocated array returned on every call) is not the degree-{deg} '
                            f'Taylor polynomial of exp(hA) y: got {impl_b.tolist()}, expected {[float(w) for w in want]}; with the rate '
                            f'function lambda y: A @ y it returns {list(map(float, impl))}',
                            {'op': name, 'A': A, 'y': y, 'h': h, 'rate': 'buffer', 'impl': impl_b.tolist(), 'expected': [str(w) for w in want]})
    # order of the one-step error: err(h)/err(h/2) -> 2^(p+1), measured with the state at every scale
    for name, f, p in (('euler', euler, 1), ('rungekutta', rungekutta, 4)):
        for a in (1.0, -0.75, 0.5):
            for y0 in [1.0] + [2.0 ** e for e in _SCALE_EXPS + _FAR_EXPS] + [1e-9, 1e-12, 1e9]:
                errs = []
                for h in (0.2, 0.1, 0.05):
                    errs.append(abs(float(f(lambda c: a * c, np.array([y0]), h)[0]) / y0 - math.exp(a * h)))
                ctx.stats.case('oracle:order', (name, a, y0))
                ratios = [errs[i] / errs[i + 1] for i in range(2) if errs[i + 1] > 0]
                if any(r < 2 ** (p + 1) * 0.8 for r in ratios):
                    ctx.violate(f'{name}:order', f'{name} on y\' = {a} y from y0 = {y0!r}: relative one-step errors {errs} at h = 0.2, 0.1, '
                                f'0.05, ratios {ratios} on halving h, expected about {2 ** (p + 1)} (order {p})',
                                {'op': name + ':order', 'a': a, 'y0': y0, 'errs': errs})
    _search_scales(ctx, rng, broken)
    _search_integ_arrays(ctx, rng, broken)
    _search_selection(ctx, rng, broken)
    _relax_flow(ctx, rng, lean=False)
    # numerical gradient: second order in the step on smooth functions (sin/exp mix)
    for it in range(ctx.n(40, 400)):
        dim = 1 + it % 3
        x = np.array([rng.uniform(-1, 1) * rng.choice([1.0, 3.0, 8.0]) for _ in range(dim)])
        w = np.array([rng.uniform(0.5, 2) for _ in range(dim)])

        def fxn(v, w=w):
            return np.sin(w * v).sum(axis=-1) + np.exp(0.3 * v.sum(axis=-1))
        exact = w * np.cos(w * x) + 0.3 * math.exp(0.3 * x.sum())
        e1 = np.abs(central_difference(fxn, x, 1e-2) - exact).max()
        e2 = np.abs(central_difference(fxn, x, 5e-3) - exact).max()
        ctx.stats.case('oracle:cd-order', tuple(x))
        if e1 > 1e-2 or (e2 > 1e-10 and e1 / e2 < 3.0):
            ctx.violate('central_difference:order', f'gradient error {e1} at shift 1e-2, {e2} at 5e-3 (ratio {e1 / max(e2, 1e-300):.2f}, expected ~4)',
                        {'op': 'cd-order', 'x': x.tolist(), 'w': w.tolist(), 'e1': float(e1), 'e2': float(e2)})
    _search_cd_arrays(ctx, rng, broken)
    t_ = time.time()
    _search_counts(ctx, rng, broken)
    ctx.extra['t_search_counts_s'] = round(time.time() - t_, 2)
    _search_units(ctx, rng, broken)
    _search_refusals(ctx, rng)
    # every combination of good and bad constructor arguments: which exception comes first, what is selected
    for it in range(ctx.n(150, 2000) * (2 if broken else 1)):
        case = _gen_ctor(rng)
        got = _ctor_run(case)
        want = _ctor_oracle(case)
        ctx.stats.case('oracle:construct', repr(sorted(case.items())))
        if not _ctor_compare(got, want):
            ctx.violate('path:construct:' + ('refusal' if want[0] == 'err' or got[0] == 'err' else 'selection'),
                        f'{_ctor_describe(case)}: documented {want}, the implementation gives {got}', {'op': 'ctor', 'case': case})
    _search_paths(ctx, rng, broken)
    _search_relax(ctx, rng)


def _search_scales(ctx, rng, broken):
    """the Taylor clause with the state in other units: y·c for c = 2^k (k = -60…60) and decimal factors (1e-9: metres);
    homogeneity step(c·y) = c·step(y) (bit-wise for powers of two); the same law in another unit of time (A·c, h/c);
    one-step order against exp(hA) y for matrices at every scale."""
    np = _np()
    from atomman.mep.integrator import euler, rungekutta
    for it in range(ctx.n(120, 1500) * (3 if broken else 1)):
        dim = 1 + it % 6
        A, y, h = _gen_linear(rng, dim)
        An, yn = np.array(A), np.array(y)
        if not (An.any() and yn.any()):
            continue
        factors = [2.0 ** e for e in rng.sample(_SCALE_EXPS, 3) + rng.sample(_FAR_EXPS, 2)] + [rng.choice(_DEC_SCALES)]
        for name, f, deg in (('euler', euler, 1), ('rungekutta', rungekutta, 4)):
            try:
                base = np.asarray(f(lambda c: An @ c, yn.copy(), h), dtype=float)
            except Exception:  # noqa: reported by the unit-scale clause
                continue
            for c in factors:
                ys = yn * c
                info = {'op': name, 'A': A, 'y': ys.tolist(), 'h': h, 'scale': c}
                ctx.stats.case('oracle:' + name + ':scaled', (A, y, h, c), sample=info if it < 3 else None)
                try:
                    impl = np.asarray(f(lambda v: An @ v, ys.copy(), h), dtype=float)
                except Exception as e:  # noqa
                    ctx.violate(f'{name}:raises', f'{name}(A@y, y={ys.tolist()}, h={h}) raised {type(e).__name__}: {e}', info)
                    continue
                want = _taylor(A, ys.tolist(), h, deg)
                if impl.shape != yn.shape or not cm.allclose(list(impl), want, rtol=1e-9, atol=1e-11 * abs(c)):
                    ctx.violate(f'{name}:taylor', f'{name} on y\'=Ay with A = {A}, y = {ys.tolist()} (the state {y} in units of {c!r}), '
                                f'h = {h} is not the degree-{deg} Taylor polynomial of exp(hA) y: got {impl.tolist()}, expected '
                                f'{[_fl(w) for w in want]}; at y = {y} it returns {base.tolist()}',
                                dict(info, impl=impl.tolist(), expected=[str(w) for w in want]))
                    continue
                pow2 = math.frexp(abs(c))[0] == 0.5
                if (pow2 and not np.array_equal(impl, base * c)) or \
                        not np.allclose(impl, base * c, rtol=1e-9, atol=1e-9 * abs(c) * max(float(np.abs(base).max()), float(np.abs(yn).max()))):
                    ctx.violate(f'{name}:homogeneity', f'{name} on y\'=Ay, A = {A}, h = {h}: the step from c·y is not c times the step '
                                f'from y for c = {c!r}, y = {y}: {impl.tolist()} against {(base * c).tolist()}', info)
            # another unit of time
            e = rng.choice(_SCALE_EXPS + _FAR_EXPS)
            At, ht = An * 2.0 ** e, h * 2.0 ** -e
            ctx.stats.case('oracle:' + name + ':time-unit', (A, y, h, e))
            try:
                impl = np.asarray(f(lambda v: At @ v, yn.copy(), ht), dtype=float)
            except Exception as ex:  # noqa
                ctx.violate(f'{name}:raises', f'{name}(A@y, y={y}, h={ht}) with A = {At.tolist()} raised {type(ex).__name__}: {ex}',
                            {'op': name, 'A': At.tolist(), 'y': y, 'h': ht})
                continue
            if not np.array_equal(impl, base):
                ctx.violate(f'{name}:time-unit', f'{name} with rate 2^{e}·A and step h·2^{-e} (A = {A}, y = {y}, h = {h}) returns '
                            f'{impl.tolist()}, with rate A and step h {base.tolist()}', {'op': name, 'A': At.tolist(), 'y': y, 'h': ht})
    # measured order for matrices, at every scale: error against exp(hA) y (degree-30 Taylor sum, exact rationals)
    for it in range(ctx.n(12, 120)):
        dim = rng.choice([2, 3, 4])
        A = [[cm.dyadic(rng, -1, 1, 2) for _ in range(dim)] for _ in range(dim)]
        y = [cm.dyadic(rng, -4, 4, 2) for _ in range(dim)]
        An = np.array(A)
        if not (An @ An @ np.array(y)).any():
            continue
        nrm = max(1.0, float(np.abs(An).sum(axis=1).max()))
        c = rng.choice([1.0] + [2.0 ** e for e in _SCALE_EXPS + _FAR_EXPS] + [1e-9])
        ys = (np.array(y) * c).tolist()
        for name, f, p in (('euler', euler, 1), ('rungekutta', rungekutta, 4)):
            errs = []
            for k in (2, 3, 4):
                h = 2.0 ** -k / nrm
                ex = _taylor(A, ys, h, 30)
                try:
                    got = f(lambda v: An @ v, np.array(ys), h)
                    errs.append(max(abs(float(g) - _fl(w)) for g, w in zip(got, ex)) / abs(c))
                except Exception:  # noqa
                    errs.append(float('nan'))
            ctx.stats.case('oracle:order-matrix', (name, repr(A), repr(ys)))
            ratios = [errs[i] / errs[i + 1] for i in range(2) if errs[i + 1] > 1e-13]
            if any(not (r >= 2 ** (p + 1) * 0.6) for r in ratios):
                ctx.violate(f'{name}:order', f'{name} on y\'=Ay, A = {A}, y = {ys}: one-step errors {errs} at h = 1/4, 1/8, 1/16 of '
                            f'1/|A|, ratios {ratios} on halving h, expected about {2 ** (p + 1)} (order {p})',
                            {'op': name + ':order-matrix', 'A': A, 'y': ys, 'errs': errs})


def _search_integ_arrays(ctx, rng, broken):
    """arrays of points advanced in one call: row n follows its own law; parameters of the law handed through the
    keyword arguments of the step reach every stage; the input array is left untouched."""
    for it in range(ctx.n(150, 2000) * (2 if broken else 1)):
        case = _gen_integ_array(rng)
        for name in ('euler', 'rungekutta'):
            got, untouched = _integ_array_call(case, name)
            ctx.stats.case('oracle:' + name + ':array', repr(case), sample=dict(case, integrator=name) if it < 2 else None)
            why = _integ_array_check(case, name, got, _integ_array_want(case, name))
            if why is None and not untouched:
                why = 'the coordinate array handed in was overwritten'
            if why is not None:
                ctx.violate(f'{name}:array', f'{_describe_integ_array(case, name)}: {why}', dict(case, integrator=name))


def _search_selection(ctx, rng, broken):
    """the climbing images relax chooses: the first `climbpoints` interior images whose energy (after the relaxation
    steps) is above the previous image's and not below the next image's (the first image of a flat top counts)."""
    for it in range(ctx.n(150, 1500)):
        case = _Selection.gen(rng)
        E, seen = _Selection.run(case)
        want = _Selection.want(E, case['climbpoints']) if E is not None else []
        ctx.stats.case('oracle:climb-selection', repr(case), nontrivial=bool(want))
        why = _Selection.verdict(case, E, seen, want)
        if why is not None:
            ctx.violate('relax:climb-selection', f'relax(relaxsteps={case["relaxsteps"]}, climbsteps={case["climbsteps"]}, climbpoints='
                        f'{case["climbpoints"]}) on {case["n"]} images: {why}', case)


def _gen_units(rng):
    dim = rng.choice([1, 2, 2, 3])
    n = rng.choice([2, 3, 3, 4, 5, 6])
    g = rng.choice(['cd', 'an'])
    return {'op': 'units', 'coord': _gen_rows(rng, n, dim), 'poly': _gen_poly(rng, dim, tame=True).spec(), 'g': g,
            'kw': rng.choice([2.0 ** -6, 2.0 ** -8, 2.0 ** -10]) if g == 'cd' else rng.choice([None, 1.0, 0.5, 2.0]),
            'integ': rng.choice(['euler', 'rk', 'rk']), 'exp': rng.choice(_UNIT_EXPS),
            'hrel': rng.choice([0.5, 0.25, 0.125]), 'climb': rng.random() < 0.5, 'r': rng.randint(1, 3), 'c': rng.randint(0, 2),
            'tolrel': rng.choice([0.0, 0.0, 0.5, 0.9])}


def _units_run(case):
    """the same string in two units of length (x and x·2^e; the energy a·v + b·v² + c·v³ + m·v0·vl becomes
    a·2^e, b, c·2^-e, m, a central-difference shift s becomes s·2^e): every read and every step/relax must be the
    scaled one. Returns a description of the first difference or None."""
    np = _np()
    c = 2.0 ** case['exp']
    sp = case['poly']
    shs = []
    for k in (1.0, c):
        poly = {'a': [v * k for v in sp['a']], 'b': sp['b'], 'c': [v / k for v in sp['c']], 'm': sp['m']}
        kw = case['kw'] * k if (case['g'] == 'cd') else case['kw']
        shs.append(Shadow([[v * k for v in r] for r in case['coord']], Poly(**poly), case['g'], kw, case['integ']))
    h = _stable_step(shs[0])
    h = 2.0 ** math.floor(math.log2(case['hrel'] * h))
    r = Runner()
    n = shs[0].n
    climb = None
    res = []
    for sh in shs:
        try:
            with np.errstate(all='ignore'):
                p = r.build(sh, via='ISMPath', gname=('callable' if sh.g == 'an' else 'function'), iname='function')
                obs = Runner.observe(p)
                if climb is None:
                    E = obs['energy'] if not isinstance(obs['energy'], tuple) else []
                    climb = _Selection.want(list(E), 1) if (case['climb'] and n >= 3) else []
                out = {'obs': obs}
                # arc coordinates a hair (2^-20 of the length) outside [0, length] are refused in every unit of length
                L = float(np.asarray(p.arccoord, dtype=float)[-1])
                for where, arr in (('above', np.array([L / 2, L * (1 + 2.0 ** -20)])), ('below', np.array([-L * 2.0 ** -20, L / 2]))):
                    try:
                        p.interpolate_path(arr)
                        return (f'interpolate_path({arr.tolist()}) on the string {sh.coord} (length {L!r}) returned a path: the arc '
                                f'coordinate {where} the range [0, length] by 2^-20 of the length was not refused'), h
                    except ValueError:
                        pass
                for name, fn in (('step', lambda: p.step(timestep=h, **({'climbindex': climb} if climb else {}))),
                                 ('relax', lambda: p.relax(relaxsteps=case['r'], climbsteps=case['c'], timestep=h, verbose=False,
                                                           tolerance=case['tolrel'] * float(np.abs(p.grad_energy()).max())))):
                    try:
                        out[name] = np.array(fn().coord, dtype=float)
                    except Exception as e:  # noqa
                        out[name] = ('raise', type(e).__name__)
        except Exception as e:  # noqa
            return f'constructing/reading the path raised {type(e).__name__}: {e}', h
        res.append(out)
    a, b = res
    power = {'coord': 1, 'energy': 2, 'grad': 1, 'arc': 1, 'tangent': 0, 'force': 1}
    pairs = [(f'.{k}', a['obs'][k], b['obs'][k], power[k]) for k in power] + \
            [(f'step(timestep={h}, climbindex={climb or None}).coord', a['step'], b['step'], 1),
             (f'relax({case["r"]}, {case["c"]}, timestep={h}, tolerance={case["tolrel"]}·max|grad E|).coord', a['relax'], b['relax'], 1)]
    for name, u, v, pw in pairs:
        if isinstance(u, tuple) or isinstance(v, tuple):
            if isinstance(u, tuple) != isinstance(v, tuple):
                return (f'{name}: {"raises " + u[1] if isinstance(u, tuple) else "returns a value"} in the first unit, '
                        f'{"raises " + v[1] if isinstance(v, tuple) else "returns a value"} in the second'), h
            continue
        if not np.isfinite(u).all() or (u.size and np.abs(u).max() > 1e6):
            continue            # ran away (cubic energies are unbounded below): no statement
        w = u * c ** pw
        if v.shape != w.shape or not np.allclose(v, w, rtol=1e-9, atol=1e-9 * c ** pw * (float(np.abs(u).max()) if u.size else 0.0)):
            return (f'{name} is {u.tolist()} for the string {shs[0].coord} and {v.tolist()} for the same string in units of 2^{case["exp"]} '
                    f'({shs[1].coord}), expected {w.tolist()}'), h
    return None, h


def _search_units(ctx, rng, broken):
    """no absolute length scale enters a path: reads, step and relax of the same string in another unit of length;
    central_difference of the same function in another unit."""
    np = _np()
    from atomman.mep.gradient import central_difference
    for it in range(ctx.n(80, 1000) * (2 if broken else 1)):
        case = _gen_units(rng)
        why, h = _units_run(case)
        ctx.stats.case('oracle:path-units', repr(case), sample=dict(case, timestep=h) if it < 2 else None)
        if why is not None:
            ctx.violate('path:units', f'path with the energy {case["poly"]} ({case["integ"]}, gradient {case["g"]}, settings {case["kw"]}): {why}',
                        case)
    for it in range(ctx.n(60, 600)):
        d = rng.choice([1, 2, 3])
        poly = _gen_poly(rng, d)
        e = rng.choice(_SCALE_EXPS)
        c = 2.0 ** e
        X = np.array([[cm.dyadic(rng, -2, 2, 3) for _ in range(d)] for _ in range(rng.choice([1, 3]))])
        s = rng.choice([2.0 ** -6, 2.0 ** -10, 1e-3])
        sp = poly.spec()
        ps = Poly([v * c for v in sp['a']], sp['b'], [v / c for v in sp['c']], sp['m'])
        info = {'op': 'cd-units', 'poly': sp, 'X': X.tolist(), 'shift': s, 'exp': e}
        ctx.stats.case('oracle:cd-units', repr(info))
        try:
            g1, g2 = central_difference(poly, X, s), central_difference(ps, X * c, s * c)
        except Exception as ex:  # noqa
            ctx.violate('central_difference:units', f'central_difference raised {type(ex).__name__}: {ex} ({info})', info)
            continue
        if g1.shape != g2.shape or not np.allclose(g2, g1 * c, rtol=1e-9, atol=1e-9 * c * float(np.abs(g1).max())):
            ctx.violate('central_difference:units', f'central_difference of the cubic {sp} at X = {X.tolist()}, shift {s} is {g1.tolist()}; '
                        f'the same function, points and shift in units of 2^{e} give {g2.tolist()}, expected {(g1 * c).tolist()}', info)


def _smooth(w):
    np = _np()

    def fxn(v, w=w):
        v = np.asarray(v, dtype=float)
        return np.sin(w * v).sum(axis=-1) + np.exp(0.3 * v.sum(axis=-1))

    def grad(v, w=w):
        v = np.asarray(v, dtype=float)
        return w * np.cos(w * v) + 0.3 * np.exp(0.3 * v.sum(axis=-1))[..., None]
    return fxn, grad


def _search_cd_arrays(ctx, rng, broken):
    """gradient clause on coordinate arrays of every leading shape: polynomial energies against the exact value
    (gradient + c_i shift^2), a sin/exp mix against its analytic gradient to second order in the shift."""
    np = _np()
    from atomman.mep.gradient import central_difference
    for it in range(ctx.n(250, 3000) * (2 if broken else 1)):
        case = _gen_cd_array(rng)
        got, poly = _cd_array_call(case)
        ctx.stats.case('oracle:cd-array', repr(case), sample={'op': 'cd-array', 'leading_shape': case['lead'],
                                                             'dim': poly.dim, 'shift': case['shift']})
        why = _cd_array_check(case, got, poly)
        if why is not None:
            shape = tuple(case['lead']) + (poly.dim,)
            X = np.array(case['pts'], dtype=float).reshape(shape)
            ctx.violate(f'central_difference:array{len(shape)}d', f'central_difference(f, X, shift={case["shift"]}) for ' + (f'the plane f(v) = v_{case["k"]} returning a VIEW of its argument ({case["view"]}) ' if case.get('view') else 'the cubic f ') +
                        f'{case["poly"]} and X ({case["container"]}) of shape {shape} = {X.tolist()}: {why}',
                        dict(case, impl=None if isinstance(got, tuple) else got.tolist()))
    for it in range(ctx.n(60, 600)):
        d = rng.choice([1, 2, 3])
        lead = rng.choice(_LEADING)
        w = np.array([rng.uniform(0.5, 2) for _ in range(d)])
        X = np.array([rng.uniform(-1, 1) * rng.choice([1.0, 3.0]) for _ in range(int(np.prod(lead, dtype=int)) * d)]).reshape(tuple(lead) + (d,))
        fxn, grad = _smooth(w)
        exact = grad(X)
        info = {'op': 'cd-smooth', 'w': w.tolist(), 'X': X.tolist(), 'lead': list(lead)}
        ctx.stats.case('oracle:cd-smooth', (tuple(lead), d, X.ravel().tolist()))
        try:
            g1, g2 = central_difference(fxn, X, 1e-2), central_difference(fxn, X, 5e-3)
        except Exception as e:  # noqa
            ctx.violate(f'central_difference:array{len(lead) + 1}d', f'central_difference on X of shape {X.shape} = {X.tolist()} '
                        f'raised {type(e).__name__}: {e}', info)
            continue
        if g1.shape != X.shape:
            ctx.violate(f'central_difference:array{len(lead) + 1}d', f'central_difference on X of shape {X.shape} returned shape '
                        f'{g1.shape}', info)
            continue
        e1, e2 = np.abs(g1 - exact).max(), np.abs(g2 - exact).max()
        if e1 > 1e-3 or (e2 > 1e-10 and e1 / e2 < 3.0):
            k = np.unravel_index(np.abs(g1 - exact).argmax(), X.shape)
            ctx.violate(f'central_difference:array{len(lead) + 1}d', f'sum(sin(w x)) + exp(0.3 sum x), w={w.tolist()}, X of shape '
                        f'{X.shape} = {X.tolist()}: gradient error {e1:.3g} at shift 1e-2, {e2:.3g} at 5e-3 (ratio '
                        f'{e1 / max(e2, 1e-300):.2f}, expected ~4); entry {tuple(int(i) for i in k)} is {g1[k]!r}, analytic {exact[k]!r}', info)


_COUNT_IMAGES = [2, 3, 4, 5, 6, 7, 15, 16, 17, 99, 100, 101, 255, 256, 257, 315, 316, 317, 318, 511, 513, 1000, 1001, 1023, 1024, 1025,
                 2047, 2049, 4097]
_COUNT_POINTS = [1023, 1024, 1025, 2047, 2048, 2049, 4095, 4097, 8193, 65537]


def _search_counts(ctx, rng, broken):
    """counts and thresholds: strings of N images and point arrays of N rows, N around the powers of two, k * block + 1, the
    image counts at which the documented defaults switch (5 | 6 images: 0.05 min(0.2, 1/N); 316 | 317: max(N^-4, 1e-10)),
    the smallest strings (2, 3 images).  Oracles in closed form:
      * defaults from exact rationals;
      * a straight string y = c in the valley E = k y^2, equally spaced with a dyadic spacing: one step multiplies y by the
        Taylor polynomial of exp(-2 k h) (degree 1 | 4), leaves x alone and -- every segment being equally spaced already,
        with or without climbing images, named by positive or NEGATIVE indices -- re-spaces nothing;
      * a string of N images on a quarter circle: arc coordinates i * chord, interpolation half-way between the images on
        the circle to O(chord^4);
      * the gradient / one integrator step on N points at once, row by row (exact cubic oracle / Taylor polynomial)."""
    np = _np()
    import atomman.mep as mep
    th = bool(broken or ctx.thorough)
    sizes = list(_COUNT_IMAGES) if th else sorted(set([2, 3, 5, 6, 316, 317] + rng.sample(_COUNT_IMAGES, 5) + [rng.choice([1025, 2049, 4097])]))
    for N in sizes:
        info = {'op': 'counts', 'kind': 'string', 'N': N}
        ctx.stats.case('oracle:counts:string', N, sample=info)
        kk = rng.choice([0.5, 1.0, 2.0])
        c0 = rng.choice([0.25, -0.5, 0.125])
        dx = 2.0 ** -rng.choice([3, 5, 8])
        coord = np.array([[i * dx - 1.0, c0] for i in range(N)])

        def energy(p, kk=kk):
            p = np.asarray(p)
            return kk * p[..., 1] ** 2

        def grad(fxn, p, kk=kk):
            p = np.asarray(p)
            return np.stack([np.zeros(p.shape[:-1]), 2 * kk * p[..., 1]], axis=-1)
        for gname in ('analytic', 'central difference'):
            integ = rng.choice(['euler', 'rk'])
            try:
                path = mep.create_path(coord.copy(), energy, integratorfxn=integ, **({} if gname != 'analytic' else {'gradientfxn': grad, 'gradientkwargs': {}}))
                dt, tol = float(path.default_timestep), float(path.default_tolerance)
                wdt = float(Fraction(1, 20) * min(Fraction(1, 5), Fraction(1, N)))
                wtol = max(float(Fraction(1, N ** 4)), 1e-10)
                if abs(dt - wdt) > 1e-15 * wdt or abs(tol - wtol) > 1e-14 * wtol:
                    ctx.violate('path:defaults', f'a string of N = {N} images has default_timestep {dt!r} and default_tolerance {tol!r}; documented '
                                f'0.05 min(0.2, 1/N) = {wdt!r} and max(N^-4, 1e-10) = {wtol!r}', info)
                arc = np.asarray(path.arccoord, dtype=float)
                if arc.shape != (N,) or np.abs(arc - np.arange(N) * dx).max() > 1e-12 * N * dx:
                    ctx.violate('path:arccoord', f'arc coordinates of {N} images spaced by {dx} on a straight line differ from i * {dx} by '
                                f'{np.abs(arc - np.arange(N) * dx).max() if arc.shape == (N,) else arc.shape!r}', info)
                h = rng.choice([2.0 ** -4, 2.0 ** -6])
                z = -2 * kk * h
                pol = 1 + z if integ == 'euler' else 1 + z + z * z / 2 + z ** 3 / 6 + z ** 4 / 24
                want = coord.copy()
                want[:, 1] *= pol
                climbs = [None]
                if N >= 3:
                    m = rng.randrange(1, N - 1)
                    climbs += [m - N, [m - N], np.array([m - N]), m]
                    if N >= 5:
                        m2 = rng.randrange(1, N - 1)
                        if m2 != m:
                            climbs.append(sorted([m, m2]))
                            climbs.append([t - N for t in sorted([m, m2])])
                for ci in ([None] + rng.sample(climbs[1:], min(2, len(climbs) - 1)) if N > 300 else climbs):
                    new = path.step(timestep=h, **({} if ci is None else {'climbindex': ci}))
                    got = np.asarray(new.coord, dtype=float)
                    atol = (1e-11 if gname == 'analytic' else 1e-8) * (1 + N * dx)
                    if got.shape != want.shape or not np.allclose(got, want, rtol=0, atol=atol):
                        k_ = None if got.shape != want.shape else np.unravel_index(np.abs(got - want).argmax(), want.shape)
                        ctx.violate('step:counts', f'one {integ} step (h = {h}, {gname} gradient, climbindex = {ci!r}) of the straight string of N = {N} '
                                    f'images x_i = {dx} i - 1, y = {c0} in the valley E = {kk} y^2: ' +
                                    (f'shape {got.shape}' if k_ is None else f'image {int(k_[0])} is {got[k_[0]].tolist()}, expected {want[k_[0]].tolist()} '
                                     f'(x unchanged, y times the degree-{1 if integ == "euler" else 4} Taylor polynomial of exp(-2 k h); every '
                                     f'segment is equally spaced already)'), dict(info, integ=integ, gradient=gname, h=h, climbindex=repr(ci), k=kk, c=c0, dx=dx))
                        break
                    if not np.array_equal(path.coord, coord):
                        ctx.violate('step:mutates-self', f'step changed the coordinates of the {N}-image path it was called on', info)
                        break
            except Exception as e:  # noqa
                ctx.violate('counts:raises', f'string of N = {N} images ({gname} gradient, {integ}): {type(e).__name__}: {e}', info)
        if N >= 4:
            # quarter circle of radius R
            R = rng.choice([1.0, 3.0, 0.25])
            th_ = np.linspace(0, math.pi / 2, N)
            circ = R * np.stack([np.cos(th_), np.sin(th_)], axis=-1)
            try:
                path = mep.create_path(circ.copy(), energy)
                arc = np.asarray(path.arccoord, dtype=float)
                chord = 2 * R * math.sin(math.pi / 4 / (N - 1))
                if arc.shape != (N,) or np.abs(arc - np.arange(N) * chord).max() > 1e-11 * R * max(1.0, N / 100):
                    ctx.violate('path:arccoord', f'arc coordinates of {N} images on a quarter circle of radius {R} differ from i * chord by '
                                f'{np.abs(arc - np.arange(N) * chord).max() if arc.shape == (N,) else arc.shape!r}', info)
                else:
                    mid = (arc[:-1] + arc[1:]) / 2
                    q = np.asarray(path.interpolate_path(mid).coord, dtype=float)
                    tm = (th_[:-1] + th_[1:]) / 2
                    wq = R * np.stack([np.cos(tm), np.sin(tm)], axis=-1)
                    hh = math.pi / 2 / (N - 1)
                    # interior spans: the spline error of a smooth curve is <= 5/384 h^4 |4th derivative| (= R); the two end spans
                    # carry the not-a-knot end condition (same order, larger constant)
                    err = np.abs(q - wq).max(axis=1) if q.shape == wq.shape else None
                    bound = R * hh ** 4 + 1e-12 * R
                    if err is None or (err[2:-2] > bound).any() or (err > 40 * bound).any():
                        k_ = None if err is None else int(np.argmax(err))
                        ctx.violate('interpolate_path:counts', f'interpolate_path half-way between the {N} images of a quarter circle of radius {R}: ' +
                                    (f'shape {q.shape}' if err is None else f'point {k_} is {q[k_].tolist()}, on the circle {wq[k_].tolist()} '
                                     f'(off by {err[k_]:.3g}; a cubic spline is within {bound:.3g})'), dict(info, R=R))
            except Exception as e:  # noqa
                ctx.violate('counts:raises', f'quarter-circle string of N = {N} images: {type(e).__name__}: {e}', info)
    # N points at once: gradient and one integrator step, row by row
    for n in (list(_COUNT_POINTS) if th else rng.sample(_COUNT_POINTS[:-2], 2) + [rng.choice(_COUNT_POINTS[-4:])]):
        d = rng.choice([1, 2, 3])
        lead = rng.choice([(n,), (n,), (3, n), (n, 2)]) if n <= 4097 else (n,)
        npts = int(np.prod(lead))
        poly = _gen_poly(rng, d)
        base = [[cm.dyadic(rng, -2, 2, 3) for _ in range(d)] for _ in range(97)]
        case = {'op': 'cd-array', 'poly': poly.spec(), 'lead': list(lead), 'pts': [[v + (i // 97) % 3 for v in base[i % 97]] for i in range(npts)],
                'shift': rng.choice([None, 2.0 ** -6, 2.0 ** -10]), 'container': rng.choice(['array', 'stridedarray', 'list']), 'returns': 'numpy'}
        if rng.random() < 0.4:
            k = rng.randrange(d)
            case.update(poly=Poly([1.0 if i == k else 0.0 for i in range(d)], [0.0] * d, [0.0] * d, 0.0).spec(), view=rng.choice(_VIEWS), k=k)
        got, pl = _cd_array_call(case)
        ctx.stats.case('oracle:counts:cd-array', (tuple(lead), d, repr(case['pts'][:3])), sample={'op': 'cd-array', 'leading_shape': list(lead), 'dim': d})
        # the exact central difference is the same for equal points: evaluate the 3 * 97 distinct ones
        uniq = {}
        se = Fraction('1e-5') if case['shift'] is None else case['shift']
        want = [v for r in case['pts'] for v in uniq.setdefault(tuple(r), pl.exact_cd(r, se))]
        why = _cd_array_check(case, got, pl, want_flat=want)
        if why is not None:
            ctx.violate(f'central_difference:array{len(lead) + 1}d', f'central_difference(f, X, shift={case["shift"]}) on X ({case["container"]}) of shape '
                        f'{tuple(lead) + (d,)} ({npts} points at once) for ' + (f'f(v) = v_{case["k"]} returning a view ({case["view"]})' if case.get('view') else f'the cubic {case["poly"]}')
                        + f': {why}', dict(case, op='counts', pts=None, regenerate='points base[i % 97] + (i // 97) % 3', base=base))
        nrows = n if n <= 8193 else 8193
        dim = rng.choice([1, 2, 3])
        mats = [[[cm.dyadic(rng, -2, 2, 2) for _ in range(dim)] for _ in range(dim)] for _ in range(7)]
        ys = [[cm.dyadic(rng, -4, 4, 2) for _ in range(dim)] for _ in range(11)]
        icase = {'op': 'integ-array', 'As': [mats[i % 7] for i in range(nrows)], 'Y': [ys[i % 11] for i in range(nrows)], 'h': rng.choice([0.5, 0.125, 0.1]),
                 'mode': rng.choice(['plain', 'kw-mats', 'kw-both']), 'gain': 1.0, 'exp': 0, 'vector': False, 'container': rng.choice(['array', 'strided', 'list']),
                 'h_as': None, 'rate_returns': rng.choice(['fresh', 'buffer', 'readonly'])}
        if icase['mode'] == 'kw-both':
            icase['gain'] = 0.5
        for name in ('euler', 'rungekutta'):
            got, untouched = _integ_array_call(icase, name)
            ctx.stats.case('oracle:counts:' + name, (nrows, dim, repr(mats), repr(ys)))
            memo = {}
            deg = 1 if name == 'euler' else 4
            g_ = Fraction(icase['gain'])
            want = [memo.setdefault((i % 7, i % 11), _taylor([[g_ * Fraction(v) for v in r] for r in mats[i % 7]], ys[i % 11], icase['h'], deg)) for i in range(nrows)]
            why = _integ_array_check(icase, name, got, want)
            if why is None and not untouched:
                why = 'the coordinate array handed in was overwritten'
            if why is not None:
                ctx.violate(f'{name}:array', f'{_describe_integ_array(icase, name)}: {why}',
                            dict(icase, op='counts', As=None, Y=None, integrator=name, regenerate='row i: A = mats[i % 7], y = ys[i % 11]', mats=mats, ys=ys, nrows=nrows))


def _search_paths(ctx, rng, broken):
    """operation sequences on one or two path objects; every read against the exact oracle of the tracked state and
    against a freshly built path. Every sixth sequence runs under other working units (nothing in a path converts units)."""
    import atomman.unitconvert as uc
    for it in range(ctx.n(120, 1500) * (2 if broken else 1)):
        ops = _gen_sequence(rng, rng.randint(3, 8))
        if it % 6 != 5:
            _run_sequence(ctx, ops, 'oracle', f'sequence {it}')
            continue
        units = rng.choice([dict(length='nm', mass='kg', energy='J', charge='C'), dict(length='m', mass='g', time='ps', charge='e'),
                            dict(seed='SI'), dict(seed=rng.randrange(10 ** 6))])
        try:
            uc.reset_units(**units)
            _run_sequence(ctx, ops, 'oracle', f'sequence {it}, working units {units}')
        finally:
            uc.reset_units(length='angstrom', mass='amu', energy='eV', charge='e')


_BAD_NEW = [  # (keyword arguments, exception, only for create_path)
    ({'style': 'NEB'}, 'ValueError', True), ({'style': ''}, 'ValueError', True), ({'style': None}, 'ValueError', True),
    ({'style': 'ism'}, 'ValueError', True),
    ({'energyfxn': 3.0}, 'TypeError', False), ({'energyfxn': None}, 'TypeError', False), ({'energyfxn': 'energy'}, 'TypeError', False),
    ({'gradientfxn': 'forward_difference'}, 'ValueError', False), ({'gradientfxn': ''}, 'ValueError', False),
    ({'gradientfxn': 3}, 'TypeError', False), ({'gradientfxn': None}, 'TypeError', False),
    ({'integratorfxn': 'verlet'}, 'ValueError', False), ({'integratorfxn': ''}, 'ValueError', False),
    ({'integratorfxn': 0.5}, 'TypeError', False), ({'integratorfxn': None}, 'TypeError', False),
    ({'gradientkwargs': [('shift', 0.001)]}, 'TypeError', False), ({'gradientkwargs': 'shift'}, 'TypeError', False),
    ({'gradientkwargs': 0}, 'TypeError', False), ({'gradientkwargs': ()}, 'TypeError', False),
]


def _search_refusals(ctx, rng):
    """the documented refusals of the constructors happen at construction, with the documented exception; the documented
    spellings of the options are accepted and select the documented functions; BasePath leaves step/relax/unittangent to
    its subclasses."""
    np = _np()
    import atomman.mep as mep
    from atomman.mep.gradient import central_difference
    from atomman.mep.integrator import euler, rungekutta
    poly = Poly([0.5, 0.25], [1.0, 0.5], [0.0, 0.25], 0.5)
    rows = [[-1.0, 0.0], [0.0, 0.5], [1.0, 0.25]]
    for kwargs, exc, only_cp in _BAD_NEW:
        for via, ctor in (('create_path', mep.create_path), ('ISMPath', mep.ISMPath), ('BasePath', mep.BasePath)):
            if only_cp and via != 'create_path':
                continue
            kw = dict(kwargs)
            efx = kw.pop('energyfxn', poly)
            ctx.stats.case('oracle:refusal', (via, repr(kwargs)))
            try:
                ctor(np.array(rows), efx, **kw)
                got = 'returned a path'
            except Exception as e:  # noqa
                got = type(e).__name__
            if got != exc:
                ctx.violate(f'path:refusal:{next(iter(kwargs))}', f'{via}(coord, {"energyfxn" if efx is poly else repr(efx)}, '
                            + ', '.join(f'{k}={v!r}' for k, v in kw.items()) + f') {got if got == "returned a path" else "raised " + got} '
                            f'instead of raising {exc} at construction', {'op': 'refusal', 'via': via, 'kwargs': {k: repr(v) for k, v in kwargs.items()}})
    good = [({}, central_difference, rungekutta), ({'gradientfxn': 'cdiff', 'integratorfxn': 'rk'}, central_difference, rungekutta),
            ({'gradientfxn': 'central_difference', 'integratorfxn': 'rungekutta'}, central_difference, rungekutta),
            ({'integratorfxn': 'euler', 'gradientkwargs': {}}, central_difference, euler),
            ({'integratorfxn': euler, 'gradientfxn': central_difference, 'gradientkwargs': None}, central_difference, euler),
            ({'style': 'ISM'}, central_difference, rungekutta), ({'style': 'improved_string_method'}, central_difference, rungekutta)]
    for kw, gfx, ifx in good:
        for via, ctor in (('create_path', mep.create_path), ('ISMPath', mep.ISMPath)):
            if 'style' in kw and via != 'create_path':
                continue
            ctx.stats.case('oracle:accepted', (via, repr(sorted(kw))))
            try:
                q = ctor(np.array(rows), poly, **kw)
                ok = (type(q).__name__ == 'ISMPath' and q.gradientfxn is gfx and q.integratorfxn is ifx and q.energyfxn is poly
                      and q.gradientkwargs == {})
                what = f'returned {type(q).__name__} with gradientfxn {getattr(q.gradientfxn, "__name__", q.gradientfxn)}, integratorfxn ' \
                       f'{getattr(q.integratorfxn, "__name__", q.integratorfxn)}, gradientkwargs {q.gradientkwargs}'
            except Exception as e:  # noqa
                ok, what = False, f'raised {type(e).__name__}: {e}'
            if not ok:
                ctx.violate('path:options', f'{via}(coord, energyfxn, ' + ', '.join(f'{k}={getattr(v, "__name__", v)!r}' for k, v in kw.items())
                            + f') {what}; expected an ISMPath with {gfx.__name__}, {ifx.__name__}, no settings',
                            {'op': 'refusal', 'via': via, 'kwargs': {k: repr(v) for k, v in kw.items()}})
    base = mep.BasePath(np.array(rows), poly)
    for name, call in (('step', lambda: base.step()), ('relax', lambda: base.relax()), ('unittangent', lambda: base.unittangent)):
        ctx.stats.case('oracle:refusal', ('BasePath', name))
        try:
            call()
            got = 'returned'
        except Exception as e:  # noqa
            got = type(e).__name__
        if got != 'NotImplementedError':
            ctx.violate('path:refusal:base', f'BasePath.{name} {got} instead of raising NotImplementedError', {'op': 'refusal', 'via': 'BasePath', 'kwargs': {'attr': name}})


def _search_relax(ctx, rng):
    """partial clause (explored on the implementation): string relaxation on the family
         E(x,y) = (x^2-1)^2 + a (x^3/3 - x) + k (y - c (x^2-1))^2 ,  |a| < 4
       minima (-1,0), (+1,0); saddle (-a/4, c (a^2/16 - 1)) on the valley floor. Initial strings: straight or bent between
       two points near the minima; and, on the symmetric members (a = c = 0), mirror-symmetric strings with an even number
       of images (the two central images then have bit-equal energies)."""
    np = _np()
    n_cases = ctx.n(4, 16)
    variants = [('default', dict(relaxsteps=20000, climbsteps=20000)),     # relaxation converges by tolerance, then climbs
                ('rk', dict(relaxsteps=150, climbsteps=20000)),            # short relaxation, then climbing
                ('euler', dict(relaxsteps=20000, climbsteps=20000))]
    for it in range(n_cases):
        k = rng.choice([1.5, 2.0, 3.0])
        c = rng.choice([0.0, 0.5, -0.4, 0.7])
        a = rng.choice([0.0, 0.6, -0.5, 0.3]) if it else 0.6
        nimg = rng.choice([8, 10, 11, 13])
        bend = rng.choice([0.0, 0.3, -0.2])
        t = np.linspace(0, 1, nimg)
        coord = np.outer(1 - t, [-0.8, 0.25]) + np.outer(t, [1.15, -0.2])
        coord[:, 1] += bend * np.sin(np.pi * t)
        for vi, (integ, kw) in enumerate(variants[: (3 if it < 2 or ctx.thorough else 1)]):
            ex = {'images': nimg, 'bend': bend}
            if it % 3 == 1 or (it % 3 == 2 and vi == 0):
                # the same relaxation driven from outside through step(), the climbing image named by a NEGATIVE index (or, one
                # time in six, by the positive one)
                ex['by_steps'] = rng.choice(_HAND_FORMS)
                ex['coord'] = coord.tolist()
            _relax_case(ctx, k, c, a, coord, integ, kw, ex)
    for it in range(ctx.n(3, 12)):
        k = rng.choice([1.5, 2.0, 3.0])
        nimg = rng.choice([4, 6, 6, 8, 10, 12])
        bend = rng.choice([0.0, 0.3, -0.2])
        x0 = rng.choice([0.9, 0.8, 1.1])
        xs = [x0 * (2 * j + 1) / (nimg - 1) for j in range(nimg // 2)]
        half = [[x, bend * (1 - (x / x0) ** 2)] for x in xs]
        coord = np.array([[-x, y] for x, y in reversed(half)] + half)
        integ, kw = variants[it % 3]
        _relax_case(ctx, k, 0.0, 0.0, coord, integ, kw, {'images': nimg, 'bend': bend, 'symmetric': True, 'coord': coord.tolist()})


_HAND_FORMS = ['neg-int', 'neg-list', 'neg-npint', 'neg-array', 'neg-tuple', 'pos-int']


def _hand_index(form, top, n):
    """the climbing image `top` of `n` images in the form handed to step(climbindex=): negative forms count from the end."""
    np = _np()
    if isinstance(top, str):
        i = f'{top} - {n}' if form.startswith('neg') else top
        return {'int': i, 'list': f'[{i}]', 'npint': f'np.int64({i})', 'array': f'np.array([{i}])', 'tuple': f'({i},)'}[form.split('-')[1]]
    i = top - n if form.startswith('neg') else top
    return {'int': i, 'list': [i], 'npint': np.int64(i), 'array': np.array([i]), 'tuple': (i,)}[form.split('-')[1]]


def _relax_by_hand(path, kw, form):
    """what relax(relaxsteps, climbsteps) documents, driven from outside through step(): relaxation steps until the
    displacement measure is below the default tolerance, the first interior energy maximum named as climbing image (by a
    negative or a positive index), climbing steps with the same stopping rule."""
    np = _np()
    h, tol = path.default_timestep, path.default_tolerance
    cur = path
    for _ in range(kw.get('relaxsteps', 0)):
        new = cur.step(timestep=h)
        d = np.linalg.norm(new.coord - cur.coord, axis=-1).max() / h
        cur = new
        if d < tol:
            break
    E = np.asarray(cur.energy())
    tops = [i for i in range(1, len(E) - 1) if E[i] > E[i - 1] and E[i] >= E[i + 1]]
    if not tops:
        return cur
    ci = _hand_index(form, tops[0], len(E))
    for _ in range(kw.get('climbsteps', 0)):
        new = cur.step(timestep=h, climbindex=ci)
        d = np.linalg.norm(new.coord - cur.coord, axis=-1).max() / h
        cur = new
        if d < tol:
            break
    return cur


def _relax_case(ctx, k, c, a, coord, integ, kw, extra):
    np = _np()
    import atomman.mep as mep
    nimg = len(coord)
    xs = -a / 4
    saddle = np.array([xs, c * (xs * xs - 1)])

    def energy(p, k=k, c=c, a=a):
        p = np.asarray(p)
        x, y = p[..., 0], p[..., 1]
        return (x * x - 1) ** 2 + a * (x ** 3 / 3 - x) + k * (y - c * (x * x - 1)) ** 2

    def grad(p, k=k, c=c, a=a):
        x, y = p[..., 0], p[..., 1]
        u = y - c * (x * x - 1)
        gx = 4 * x * (x * x - 1) + a * (x * x - 1) + 2 * k * u * (-2 * c * x)
        gy = 2 * k * u
        return np.stack([gx, gy], axis=-1)
    barrier = float(energy(saddle))
    info = {'op': 'relax', 'k': k, 'c': c, 'a': a, 'options': integ, **extra, **kw}
    what = (f'{integ}, k={k}, c={c}, a={a}, N={nimg}, ' + (f'mirror-symmetric string {coord.tolist()}' if extra.get('symmetric')
                                                          else f'bend={extra["bend"]}'))
    try:
        if integ == 'default':
            path = mep.create_path(coord, energy)
        else:
            path = mep.create_path(coord, energy, gradientfxn=(lambda fxn, p, grad=grad: grad(p)),
                                   gradientkwargs={}, integratorfxn=integ)
    except Exception as e:  # noqa
        ctx.violate('create_path:' + integ, f'create_path with {integ} options raised {type(e).__name__}: {e}', info)
        return
    try:
        g_start, f_start = np.array(path.grad_energy()), np.array(path.force)   # reads before the relaxation
        if extra.get('by_steps'):
            new = _relax_by_hand(path, kw, extra['by_steps'])
            what += f'; relaxation driven by path.step(timestep), then path.step(timestep, climbindex={_hand_index(extra["by_steps"], "top", "N")!s})'
        else:
            new = path.relax(verbose=False, **kw)
    except Exception as e:  # noqa
        ctx.violate('relax:raises', f'relax raised {type(e).__name__}: {e} ({what})', info)
        return
    if not np.array_equal(path.coord, coord):
        ctx.violate('relax:mutates-self', f'relax changed the coordinates of the path it was called on ({integ})', info)
        return
    # keep working with the same object: load the relaxed string into it and read again
    try:
        path.coord = new.coord
        g_loaded, f_loaded, tau = np.array(path.grad_energy()), np.array(path.force), np.array(path.unittangent)
        exact_g = grad(new.coord)
        gtol = 1e-6 if integ == 'default' else 1e-12
        if not np.allclose(g_loaded, exact_g, rtol=0, atol=gtol * (1 + np.abs(exact_g).max())):
            ctx.violate('relax:reload-grad', f'after loading the relaxed string into the path it came from ({what}), '
                        f'grad_energy() differs from the analytic gradient at its coordinates by '
                        f'{np.abs(g_loaded - exact_g).max():.3g} (it differs from the gradient on the initial string by '
                        f'{np.abs(g_loaded - g_start).max():.3g})', info)
            return
        if not np.allclose(f_loaded, np.einsum('ij,ij->i', exact_g, tau), rtol=0, atol=gtol * 10 * (1 + np.abs(exact_g).max())):
            ctx.violate('relax:reload-force', f'after loading the relaxed string into the path it came from ({integ}), force is '
                        f'not grad E . tangent at its coordinates', info)
            return
    except Exception as e:  # noqa
        ctx.violate('relax:reload-raises', f'reading the path after coord = relaxed.coord raised {type(e).__name__}: {e}', info)
        return
    E = new.energy()
    top = int(np.argmax(E))
    g = float(np.abs(grad(new.coord[top])).max())
    # relax stops when max|displacement|/timestep (= the largest |rate|, the climbing image's |grad E| included) is below
    # the default tolerance max(N^-4, 1e-10): the curvatures at the saddle are -4 + O(a) and 2k >= 3
    tol = max(float(nimg) ** -4, 1e-10)
    ends_ok = np.allclose(new.coord[0], [-1, 0], atol=max(2e-3, tol)) and np.allclose(new.coord[-1], [1, 0], atol=max(2e-3, tol))
    saddle_ok = np.allclose(new.coord[top], saddle, atol=max(2e-3, tol)) and abs(E[top] - barrier) < max(1e-5, tol * tol) \
        and g < max(2e-3, 2 * tol)
    ctx.stats.case('oracle:relax' + ('-symmetric' if extra.get('symmetric') else ''), (k, c, a, nimg, repr(coord.tolist()), integ),
                   sample={**{k_: v for k_, v in info.items() if k_ != 'coord'}, 'saddle_found': new.coord[top].tolist(),
                           'saddle': saddle.tolist(), 'barrier_found': float(E[top]), 'barrier': barrier})
    if not (ends_ok and saddle_ok):
        key = 'relax:saddle:tied-top' if (extra.get('symmetric') and nimg % 2 == 0) else 'relax:saddle'
        ctx.violate(key, f'relaxed string misses minima/saddle ({what}): ends {new.coord[0]}, {new.coord[-1]}; top image '
                    f'{new.coord[top]} E={E[top]:.8f} |grad|={g:.2e} (saddle {saddle}, barrier {barrier:.8f}); image energies '
                    f'{E.tolist()}', info)


def replay(ctx, payload):
    """re-run one stored case against the current tree."""
    np = _np()
    from atomman.mep.integrator import euler, rungekutta
    r = payload.get('replay', {})
    op = r.get('op')
    if op in ('euler', 'rungekutta'):
        f, deg = (euler, 1) if op == 'euler' else (rungekutta, 4)
        An, yn = np.array(r['A']), np.array(r['y'])
        if r.get('rate') == 'buffer':
            buf = np.empty(len(yn))

            def rate(c):
                np.dot(An, c, out=buf)
                return buf
            print('replay with the rate function np.dot(A, y, out=buf); return buf')
        else:
            def rate(c):
                return An @ c
        impl = np.array(f(rate, yn, r['h']), dtype=float)
        want = _taylor(r['A'], r['y'], r['h'], deg)
        print('replay', op, 'impl', list(map(float, impl)), 'expected', [float(w) for w in want])
        if not cm.allclose(impl, want, rtol=1e-9, atol=1e-11 * abs(r.get('scale', 1.0))):
            ctx.violate(f'{op}:taylor', 'replayed case still fails', r)
        if 'scale' in r:
            c = r['scale']
            base = f(lambda v: An @ v, np.array(r['y']) / c, r['h'])
            print('  step from y/c times c:', (np.asarray(base) * c).tolist())
            if not np.allclose(impl, np.asarray(base) * c, rtol=1e-9, atol=1e-9 * abs(c) * float(np.abs(base).max())):
                ctx.violate(f'{op}:homogeneity', 'replayed case: the step from c·y is still not c times the step from y', r)
        if not np.array_equal(yn, np.array(r['y'])):
            ctx.violate(f'{op}:mutates-input', f'replayed case still overwrites its input: {yn.tolist()}', r)
    elif op == 'ctor':
        got, want = _ctor_run(r['case']), _ctor_oracle(r['case'])
        print('replay ctor', _ctor_describe(r['case']), 'impl', got, 'documented', want)
        if not _ctor_compare(got, want):
            ctx.violate('path:construct:refusal', f'replayed case still differs: {got} instead of {want}', r)
    elif op == 'path-seq':
        print('replay path operation sequence:', ' > '.join(_brief(o) for o in r['ops']))
        _run_sequence(ctx, r['ops'], 'oracle', 'replay')
        if ctx.driver is not None:
            _run_sequence(ctx, r['ops'], 'lean', 'replay')
        for f in ctx.violations + ctx.disagreements:
            print('  still fails:', f.what[:400])
        if not (ctx.violations or ctx.disagreements):
            print('  no clause fails on the current tree')
    elif op == 'cd-array':
        got, poly = _cd_array_call(r)
        why = _cd_array_check(r, got, poly)
        print('replay central_difference on leading shape', r['lead'], '->', why or 'agrees with the exact gradient')
        if why is not None:
            ctx.violate(f'central_difference:array{len(r["lead"]) + 1}d', 'replayed case still fails: ' + why, r)
    elif op == 'relax-flow':
        got = _relax_flow_run(r['relaxsteps'], r['climbsteps'], r['tol'], r['dr'], r['dc'])
        want = (_phase_count(r['relaxsteps'], r['tol'], r['dr']), _phase_count(r['climbsteps'], r['tol'], r['dc']))
        print('replay relax control flow: performed', got, 'expected', want)
        if tuple(got) != want:
            ctx.violate('relax:flow', f'replayed case still fails: {got} steps instead of {want}', r)
    elif op == 'relax' and 'coord' in r:
        kw = {k: r[k] for k in ('relaxsteps', 'climbsteps') if k in r}
        _relax_case(ctx, r['k'], r['c'], r['a'], np.array(r['coord']), r['options'], kw,
                    {k: r[k] for k in ('images', 'bend', 'symmetric', 'coord', 'by_steps') if k in r})
        print('replay relaxation of the stored string ->', '; '.join(f.what[:300] for f in ctx.violations) or 'ends in the minima, top image at the saddle')
    elif op == 'integ-array':
        names = [r['integrator']] if 'integrator' in r else ['euler', 'rungekutta']
        for name in names:
            name = 'euler' if name == 'euler' else 'rungekutta'
            got, untouched = _integ_array_call(r, name)
            why = _integ_array_check(r, name, got, _integ_array_want(r, name))
            print('replay', _describe_integ_array(r, name), '->', why or 'every row is its Taylor polynomial')
            if why is not None:
                ctx.violate(f'{name}:array', 'replayed case still fails: ' + why, r)
    elif op == 'climb-selection':
        E, seen = _Selection.run(r)
        why = _Selection.verdict(r, E, seen, _Selection.want(E, r['climbpoints']) if E is not None else [])
        print('replay choice of climbing images ->', why or 'as documented')
        if why is not None:
            ctx.violate('relax:climb-selection', 'replayed case still fails: ' + why, r)
    elif op == 'refusal':
        _search_refusals(ctx, random.Random(0))
        print('replay constructor refusals / option spellings ->', '; '.join(f.what[:300] for f in ctx.violations) or 'as documented')
    elif op == 'units':
        why, h = _units_run(r)
        print('replay path in two units of length ->', why or 'covariant')
        if why is not None:
            ctx.violate('path:units', 'replayed case still fails: ' + why, r)
    else:
        search(ctx, True)


MANIFEST = {
    'text': 'Euler/Runge-Kutta/central-difference/climbing-rate definitions are regenerated from the Python source on '
            'every run and the theorems (degree-1/degree-4 Taylor polynomial of exp(hA) for every linear map over every '
            'field of characteristic 0, one-step error bounds over R, exactness/second-order error of the gradient at '
            'single points and row by row on arrays, stationary images are critical points) are re-checked by the Lean '
            'kernel against them. The path object (coord, energyfxn, gradientfxn, gradientkwargs, integratorfxn) is a Lean '
            'state machine whose reads are proved to depend on the current field values only, with unit tangents, '
            'monotone arc coordinates, critical points = fixed points of a step; it is tied to BasePath/ISMPath by '
            'operation sequences on one object. A step commutes with a change of the unit of the state and of time '
            '(homogeneity theorems; tied by scale sweeps 2^-60…2^60), the climbing images relax chooses are the first '
            'climbpoints interior maxima (climbIndices theorems; tied through a scripted relax), tangents do not depend on '
            'the unit of length. A whole step (integration + any re-spacing that keeps first, last and climbing rows) that '
            'returns its string has those rows at critical points; the stopping test of relax bounds the gradient at the kept '
            'images by the tolerance (Euler); a phase that stops early stopped on that test. Relaxation to the saddle is '
            'partial (explored on the implementation, mirror-symmetric strings included). Climbing images named from the end are '
            'resolved by the model (climbImages?, pyIndex theorems); the textbook form of the Runge-Kutta step is proved to be the same '
            'function, so rate functions that return views / one reused buffer are decided on the implementation against the exact oracle. '
            'Round 5: BasePath / ISMPath / create_path are regenerated as Lean definitions as well (Generated/PathSource.lean: '
            'setters, __init__ check order, defaults, unittangent, arccoord, energy / grad_energy / force, range check of '
            'interpolate_path, the whole of relax with both loops and the choice of the climbing images) and each is proved equal '
            'to the hand model (27 gen_..._eq_model obligations); end to end: for strings of any length whose ends sit at critical '
            'points relax (any options, both integrators) returns the same number of images and the same ends; create_path '
            'accepts exactly the documented arguments (refusal iff, which exception first).',
    'note': 'Trusted: Lean kernel + propext/Classical.choice/Quot.sound; the AST translator (harness/translate.py, '
            'props/c20.py); numpy matmul/einsum/norm, scipy CubicSpline at its knots; float rounding bounded by derived '
            'first-order bounds in the correspondence. Convergence of relax() and the re-spaced interior images of a '
            'step are not proved (iterative float + spline code): partial.',
    'technique': 'Lean 4 theorems over translator-generated definitions + state-machine correspondence',
}
