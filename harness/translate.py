"""Translator: restricted Python (ast) -> Lean 4 definitions over core arithmetic classes.

Handles straight-line numeric function bodies: assignments `name = expr`, `return expr`, with
expressions built from names, numeric literals, + - * /, unary minus, integer ** and calls of a
declared callable parameter. Every sub-expression is typed as scalar ('K') or vector ('V');
`K * V` becomes scalar multiplication, `V / K` multiplication by the inverse, anything else that
does not type (e.g. `V * V`, `K + V`) raises TranslationError, which the check treats as a broken
tie (never as silently-keeping the old model).
"""
from __future__ import annotations

import ast
from fractions import Fraction


class TranslationError(Exception):
    pass


def get_function(src: str, name: str, inside: str | None = None) -> ast.FunctionDef:
    tree = ast.parse(src)
    cands = []
    for node in ast.walk(tree):
        if isinstance(node, ast.FunctionDef) and node.name == name:
            cands.append(node)
    if inside is not None:
        cands = []
        for node in ast.walk(tree):
            if isinstance(node, ast.FunctionDef) and node.name == inside:
                for sub in ast.walk(node):
                    if isinstance(sub, ast.FunctionDef) and sub.name == name:
                        cands.append(sub)
    if len(cands) != 1:
        raise TranslationError(f'function {name} not found exactly once ({len(cands)})')
    return cands[0]


def strip_doc(body):
    if body and isinstance(body[0], ast.Expr) and isinstance(body[0].value, ast.Constant) \
            and isinstance(body[0].value.value, str):
        return body[1:]
    return body


def lit(fr_: Fraction) -> str:
    """Lean term of type K for an exact rational literal, using NatCast/Div/Neg only."""
    n, d = fr_.numerator, fr_.denominator
    s = f'(({abs(n)} : Nat) : K)'
    if d != 1:
        s = f'({s} / (({d} : Nat) : K))'
    if n < 0:
        s = f'(-{s})'
    return s


class ExprTranslator:
    """env: name -> 'K' | 'V'; calls: name -> (argtypes, rettype, lean name)."""

    def __init__(self, env, calls=None, special=None):
        self.env = dict(env)
        self.calls = calls or {}
        self.special = special  # callback(node, self) -> (lean, type) | None

    def tr(self, node):
        if self.special is not None:
            r = self.special(node, self)
            if r is not None:
                return r
        if isinstance(node, ast.Constant) and isinstance(node.value, (int, float)) \
                and not isinstance(node.value, bool):
            return lit(Fraction(node.value)), 'K'
        if isinstance(node, ast.Name):
            if node.id not in self.env:
                raise TranslationError(f'unknown name {node.id}')
            return node.id, self.env[node.id]
        if isinstance(node, ast.UnaryOp) and isinstance(node.op, ast.USub):
            a, t = self.tr(node.operand)
            return f'(-{a})', t
        if isinstance(node, ast.UnaryOp) and isinstance(node.op, ast.UAdd):
            return self.tr(node.operand)
        if isinstance(node, ast.BinOp):
            a, ta = self.tr(node.left)
            b, tb = self.tr(node.right)
            op = node.op
            if isinstance(op, (ast.Add, ast.Sub)):
                if ta != tb:
                    raise TranslationError(f'cannot add {ta} and {tb}: {ast.unparse(node)}')
                return f'({a} {"+" if isinstance(op, ast.Add) else "-"} {b})', ta
            if isinstance(op, ast.Mult):
                if ta == 'K' and tb == 'K':
                    return f'({a} * {b})', 'K'
                if ta == 'K' and tb == 'V':
                    return f'({a} • {b})', 'V'
                if ta == 'V' and tb == 'K':
                    return f'({b} • {a})', 'V'
                raise TranslationError(f'V * V not supported: {ast.unparse(node)}')
            if isinstance(op, ast.Div):
                if tb != 'K':
                    raise TranslationError(f'division by a vector: {ast.unparse(node)}')
                if ta == 'K':
                    return f'({a} / {b})', 'K'
                return f'(({lit(Fraction(1))} / {b}) • {a})', 'V'
            if isinstance(op, ast.Pow):
                if ta == 'K' and isinstance(node.right, ast.Constant) and isinstance(node.right.value, int) \
                        and 0 <= node.right.value <= 8:
                    n = node.right.value
                    if n == 0:
                        return lit(Fraction(1)), 'K'
                    return '(' + ' * '.join([a] * n) + ')', 'K'
                raise TranslationError(f'unsupported power: {ast.unparse(node)}')
            raise TranslationError(f'unsupported operator: {ast.unparse(node)}')
        if isinstance(node, ast.Call) and isinstance(node.func, ast.Name) and node.func.id in self.calls:
            argtypes, ret, lean = self.calls[node.func.id]
            pos = [a for a in node.args]
            # **kwargs pass-through and explicit keywords of declared names are accepted
            kws = [k for k in node.keywords if k.arg is not None]
            args = pos + [k.value for k in kws]
            if len(args) != len(argtypes):
                raise TranslationError(f'call arity: {ast.unparse(node)}')
            outs = []
            for a, t in zip(args, argtypes):
                s, ts = self.tr(a)
                if ts != t:
                    raise TranslationError(f'call argument type: {ast.unparse(node)}')
                outs.append(s)
            return '(' + lean + ' ' + ' '.join(outs) + ')', ret
        raise TranslationError(f'unsupported expression: {ast.unparse(node)}')


def translate_body(body, env, calls=None, special=None, result_type='V'):
    """Straight-line body -> list of lean `let` lines + final expression."""
    tr = ExprTranslator(env, calls, special)
    lets = []
    final = None
    for st in strip_doc(body):
        if final is not None:
            raise TranslationError('statement after return')
        if isinstance(st, ast.Assign) and len(st.targets) == 1 and isinstance(st.targets[0], ast.Name):
            s, t = tr.tr(st.value)
            name = st.targets[0].id
            lets.append(f'let {name} := {s}')
            tr.env[name] = t
        elif isinstance(st, ast.Return) and st.value is not None:
            s, t = tr.tr(st.value)
            if t != result_type:
                raise TranslationError(f'result has type {t}, expected {result_type}')
            final = s
        elif isinstance(st, ast.Expr) and isinstance(st.value, ast.Constant):
            continue
        else:
            raise TranslationError(f'unsupported statement: {ast.unparse(st)[:80]}')
    if final is None:
        raise TranslationError('no return')
    return lets, final
