"""Run every property's translator (regenerates lean/Atomman/Generated/*.lean from /repo)."""
import importlib
import pkgutil
import sys

from . import common as cm
from . import props
from .translate import TranslationError


def main():
    for m in pkgutil.iter_modules(props.__path__):
        mod = importlib.import_module(f'harness.props.{m.name}')
        if hasattr(mod, 'translate'):
            try:
                for name, text in mod.translate().items():
                    if cm.write_generated(name, text):
                        print(f'[regen] {name}.lean updated')
            except TranslationError as e:
                print(f'[regen] {m.name}: translator failed: {e} (keeping last generated file)')


if __name__ == '__main__':
    main()
