#!/bin/bash
# setup_cmd: build the Lean model, proofs and drivers from files on disk (offline), and warm the
# Cython extension cache for /repo's current tree.
set -e
cd "$(dirname "$0")"
export PIP_NO_INDEX=1
/venv/bin/python - <<'PY'
import sys
sys.path.insert(0, '.')
from harness import regen
regen.main()
PY
cd lean
lake build 2>&1 | tail -5
cd ..
/venv/bin/python -c "
import sys; sys.path.insert(0,'.')
from harness import common as cm
cm.build_tree()
print('[setup] atomman build tree ok')
"
