#!/bin/bash
# usage: tools/mkmutwt.sh c01  -> scratch worktree /tmp/mut_c01 of /repo HEAD with the prebuilt .so files copied in
set -e
n=$1
git -C /repo worktree remove --force /tmp/mut_$n 2>/dev/null || true
git -C /repo worktree add --detach /tmp/mut_$n HEAD >/dev/null 2>&1
(cd /repo && find atomman -name '*.so' | while read f; do cp "$f" "/tmp/mut_$n/$f"; done)
mkdir -p /tmp/mut_${n}_out
echo /tmp/mut_$n
