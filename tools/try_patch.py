#!/usr/bin/env python3
"""Run registered checks against /repo HEAD + a patch, in a scratch worktree (removed afterwards).

usage: tools/try_patch.py <patch.diff> <ID>[,<ID>...] [--tier quick] [--seed N] [--demo demo.py] [--suite]
Prints, per check, exit code and the VIOLATION lines; with --demo also demo exit codes clean/patched;
with --suite the last line of the repo's own test-suite on the patched tree.
Generated Lean files of the checked properties are restored from git afterwards.
"""
import os
import shutil
import subprocess
import sys
import hashlib
from pathlib import Path

VERIF = Path(__file__).resolve().parent.parent
PY = '/venv/bin/python'


def run(cmd, cwd=None, env=None, timeout=7200):
    r = subprocess.run(cmd, cwd=cwd, env=env, capture_output=True, text=True, timeout=timeout)
    return r.returncode, r.stdout + r.stderr


def main():
    patch = Path(sys.argv[1]).resolve()
    ids = sys.argv[2].split(',')
    tier = sys.argv[sys.argv.index('--tier') + 1] if '--tier' in sys.argv else 'quick'
    seed = sys.argv[sys.argv.index('--seed') + 1] if '--seed' in sys.argv else '0'
    demo = Path(sys.argv[sys.argv.index('--demo') + 1]).resolve() if '--demo' in sys.argv else None
    tag = hashlib.sha1(str(patch).encode()).hexdigest()[:8]
    wt = Path(f'/tmp/trywt_{tag}')
    run(['git', '-C', '/repo', 'worktree', 'remove', '--force', str(wt)])
    rc, out = run(['git', '-C', '/repo', 'worktree', 'add', '--detach', str(wt), 'HEAD'])
    assert rc == 0, out
    try:
        for so in Path('/repo/atomman').rglob('*.so'):
            shutil.copy2(so, wt / so.relative_to('/repo'))
        env = dict(os.environ, PYTHONPATH=str(wt), PYTHONWARNINGS='ignore')
        if demo:
            rc0, _ = run([PY, str(demo)], cwd=wt, env=env)
        rc, out = run(['git', '-C', str(wt), 'apply', str(patch)])
        assert rc == 0, 'patch does not apply: ' + out
        if any(l.startswith('+++ ') and l.strip().endswith('.pyx') for l in patch.read_text().splitlines()):
            rcb, outb = run([PY, 'setup.py', 'build_ext', '--inplace', '-q'], cwd=wt, env=env)
            assert rcb == 0, 'cython build failed: ' + outb[-2000:]
        if demo:
            rc1, out1 = run([PY, str(demo)], cwd=wt, env=env)
            print(f'demo: clean exit {rc0}, patched exit {rc1}: {out1.strip().splitlines()[-1:] }')
        if '--suite' in sys.argv:
            rct, outt = run([PY, '-m', 'pytest', '-q', '-p', 'no:cacheprovider', '--timeout=900', 'tests'], cwd=wt, env=env)
            print('suite:', outt.strip().splitlines()[-1] if outt.strip() else '')
        for c in ids:
            envc = dict(os.environ, ATOMMAN_REPO=str(wt), VERIF_SEED=seed)
            rcc, outc = run([str(VERIF / 'check'), c, '--tier', tier], cwd=VERIF, env=envc)
            lines = [l for l in outc.splitlines() if l.startswith(('VIOLATION', 'KNOWN', '  ', '[check]'))][:8]
            print(f'{c}: exit {rcc}')
            for l in lines:
                print('   ' + l[:300])
    finally:
        run(['git', '-C', '/repo', 'worktree', 'remove', '--force', str(wt)])
        shutil.rmtree(wt, ignore_errors=True)
        sys.path.insert(0, str(VERIF))
        import importlib
        from harness import common as cm
        for c in ids:
            try:
                mod = importlib.import_module(f'harness.props.{c.lower()}')
                for name in getattr(mod, 'GENERATED', []):
                    cm.restore_generated(name)
            except Exception as e:  # noqa
                print('restore failed', c, e)


if __name__ == '__main__':
    main()
