#!/bin/bash
# usage: tools/run_all.sh <tier> <seed> [ids...]   — runs the registered checks (or the given ids), 5 at a time; logs in /tmp/runall_<seed>/
tier=${1:-quick}; seed=${2:-0}; shift 2 || true
cd "$(dirname "$0")/.."
ids="$@"; [ -z "$ids" ] && ids=$(python3 -c "import json;print(' '.join(c['property_id'] for c in json.load(open('MANIFEST.json'))['checks']))")
out=/tmp/runall_$seed; mkdir -p $out
printf '%s\n' $ids | xargs -P 5 -I{} sh -c "VERIF_SEED=$seed ./check {} --tier $tier > $out/{}.log 2>&1; echo \"{} rc=\$?\" >> $out/SUMMARY"
sort $out/SUMMARY
