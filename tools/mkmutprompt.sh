#!/bin/bash
# usage: tools/mkmutprompt.sh c02 [N]  -> scratch worktree /tmp/mut_c02 + /tmp/mutprompt_c02.txt (tester sees only the property text)
set -e
p=$1; n=${2:-4}
cd "$(dirname "$0")/.."
tools/mkmutwt.sh $p >/dev/null
rm -rf /tmp/mut_${p}_out; mkdir -p /tmp/mut_${p}_out
python3 - "$p" "$n" <<'PY'
import json,sys
p,n=sys.argv[1],sys.argv[2]
d=[json.loads(l) for l in open('properties.jsonl') if json.loads(l)['id'].lower()==p][0]
open(f'/tmp/prop_{p}.txt','w').write(json.dumps(d,indent=1))
s=open('tools/mutator_brief.md').read()
s=s.replace('{WT}',f'/tmp/mut_{p}').replace('{OUT}',f'/tmp/mut_{p}_out').replace('{PROPFILE}',f'/tmp/prop_{p}.txt').replace('{PROPTEXT}',json.dumps(d,indent=1)).replace('{N}',n)
open(f'/tmp/mutprompt_{p}.txt','w').write(s)
PY
echo /tmp/mutprompt_$p.txt
