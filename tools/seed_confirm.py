#!/usr/bin/env python3
"""Confirm a candidate seeded change and store it under /verif/seeded/<id>/.

usage: tools/seed_confirm.py <id> <property> <patch.diff> <demo.py> "<needs>" [--checks C01,C02]
Does, in a scratch worktree of /repo (removed afterwards):
  1. demo on the clean tree must exit 0;   2. apply patch; package must import; demo must exit != 0;
  3. the repo's test-suite must give the same passes as on the clean tree (baseline: 86 passed);
  4. run ./check <property> against the patched worktree and record what it reported.
"""
import json
import os
import shutil
import subprocess
import sys
from pathlib import Path

VERIF = Path(__file__).resolve().parent.parent
PY = '/venv/bin/python'


def run(cmd, cwd=None, env=None, timeout=3000):
    r = subprocess.run(cmd, cwd=cwd, env=env, capture_output=True, text=True, timeout=timeout, shell=isinstance(cmd, str))
    return r.returncode, r.stdout + r.stderr


def main():
    sid, prop, patch, demo, needs = sys.argv[1:6]
    checks = [prop]
    if '--checks' in sys.argv:
        checks = sys.argv[sys.argv.index('--checks') + 1].split(',')
    wt = Path(f'/tmp/seedwt_{sid}')
    run(['git', '-C', '/repo', 'worktree', 'remove', '--force', str(wt)])
    rc, out = run(['git', '-C', '/repo', 'worktree', 'add', '--detach', str(wt), 'HEAD'])
    assert rc == 0, out
    try:
        for so in Path('/repo/atomman').rglob('*.so'):
            shutil.copy2(so, wt / so.relative_to('/repo'))
        env = dict(os.environ, PYTHONPATH=str(wt), PYTHONWARNINGS='ignore')
        rc0, out0 = run([PY, str(Path(demo).resolve())], cwd=wt, env=env)
        rc, out = run(['git', '-C', str(wt), 'apply', str(Path(patch).resolve())])
        assert rc == 0, 'patch does not apply: ' + out
        touches_pyx = any(l.startswith('+++ ') and l.strip().endswith('.pyx') for l in Path(patch).read_text().splitlines())
        if touches_pyx:
            rcb, outb = run([PY, 'setup.py', 'build_ext', '--inplace', '-q'], cwd=wt, env=env)
            assert rcb == 0, 'cython build failed: ' + outb[-2000:]
        rc1, out1 = run([PY, str(Path(demo).resolve())], cwd=wt, env=env)
        rct, outt = run([PY, '-m', 'pytest', '-q', '-p', 'no:cacheprovider', '--timeout=900', 'tests'], cwd=wt, env=env)
        tail = outt.strip().splitlines()[-1] if outt.strip() else ''
        results = {}
        for c in checks:
            envc = dict(os.environ, ATOMMAN_REPO=str(wt))
            rcc, outc = run([str(VERIF / 'check'), c, '--tier', 'quick'], cwd=VERIF, env=envc)
            lines = [l[:400] for l in outc.splitlines() if l.startswith('VIOLATION') or l.startswith('  ')][:6]
            results[c] = {'exit': rcc, 'report': lines}
        ok = (rc0 == 0 and rc1 != 0 and '86 passed' in tail)
        meta = {'id': sid, 'breaks_property': prop, 'needs_to_manifest': needs,
                'confirmed': {'demo_clean_exit': rc0, 'demo_patched_exit': rc1, 'demo_patched_output_tail': out1.strip().splitlines()[-3:],
                              'test_suite_with_patch': tail},
                'ran': [f'git worktree add {wt}; git apply patch.diff' + ('; setup.py build_ext --inplace' if touches_pyx else ''),
                        'python demo.py (clean: exit %d, patched: exit %d)' % (rc0, rc1),
                        'pytest tests -> ' + tail] + [f'ATOMMAN_REPO={wt} ./check {c} --tier quick -> exit {results[c]["exit"]}' for c in checks],
                'check_results': results, 'kept': ok}
        print(json.dumps(meta, indent=1))
        if ok:
            d = VERIF / 'seeded' / sid
            d.mkdir(parents=True, exist_ok=True)
            shutil.copy2(patch, d / 'patch.diff')
            shutil.copy2(demo, d / ('demo' + Path(demo).suffix))
            (d / 'meta.json').write_text(json.dumps(meta, indent=1) + '\n')
        else:
            print('NOT KEPT', file=sys.stderr)
    finally:
        run(['git', '-C', '/repo', 'worktree', 'remove', '--force', str(wt)])
        # restore generated lean files for the checked properties
        sys.path.insert(0, str(VERIF))
        import importlib
        from harness import common as cm
        for c in checks:
            try:
                mod = importlib.import_module(f'harness.props.{c.lower()}')
                for name in getattr(mod, 'GENERATED', []):
                    cm.restore_generated(name)
            except Exception as e:  # noqa
                print('restore failed', c, e)

if __name__ == '__main__':
    main()
