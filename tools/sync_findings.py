#!/usr/bin/env python3
"""Append every `fix:` commit of /repo that known_findings.json does not yet record (as "fixed: property=<id> <hash> <what>").
The property is taken from the files the commit touches (anchor files of the properties); run by hand, never by a check."""
import json, subprocess, sys
from pathlib import Path
HERE = Path(__file__).resolve().parent.parent
props = [json.loads(l) for l in (HERE / 'properties.jsonl').read_text().splitlines() if l.strip()]
owner = {}
for p in props:
    for f in p['anchors']['files']:
        owner.setdefault(f, p['id'])
extra = {'atomman/mep/': 'C20', 'atomman/lammps/Log.py': 'C19', 'atomman/defect/Dislocation/': 'C13', 'atomman/defect/GammaSurface.py': 'C18',
         'atomman/defect/SDVPN.py': 'C18', 'atomman/defect/Strain.pyx': 'C17', 'atomman/defect/point.py': 'C15', 'atomman/tools/miller.py': 'C16',
         'atomman/core/ElasticConstants.py': 'C11', 'atomman/unitconvert.py': 'C09', 'atomman/core/Atoms.py': 'C06', 'atomman/core/nlist.pyx': 'C03',
         'atomman/core/NeighborList.py': 'C03', 'atomman/load/': 'C08', 'atomman/dump/': 'C07', 'atomman/defect/FreeSurface.py': 'C14',
         'atomman/defect/StackingFault.py': 'C14', 'atomman/defect/free_surface_basis.py': 'C14', 'atomman/core/Box.py': 'C01',
         'atomman/core/System.py': 'C06', 'atomman/defect/': 'C17'}
k = json.loads((HERE / 'known_findings.json').read_text())
have = ' '.join(k['fixed'])
log = subprocess.run(['git', '-C', '/repo', 'log', '--reverse', '--format=%h\t%s', 'b031343..HEAD'], capture_output=True, text=True).stdout
n = 0
for line in log.splitlines():
    h, s = line.split('\t', 1)
    if not s.startswith('fix:') or h in have:
        continue
    files = subprocess.run(['git', '-C', '/repo', 'show', '--name-only', '--format=', h], capture_output=True, text=True).stdout.split()
    pid = None
    for f in files:
        pid = owner.get(f)
        if pid:
            break
    if not pid:
        for f in files:
            for pre, q in extra.items():
                if f.startswith(pre):
                    pid = q
                    break
            if pid:
                break
    k['fixed'].append(f'fixed: property={pid or "C??"} {h} {s[4:].strip()}')
    print(k['fixed'][-1][:200]); n += 1
(HERE / 'known_findings.json').write_text(json.dumps(k, indent=1))
print(n, 'added;', len(k['fixed']), 'fixed entries')
