#!/bin/bash
# usage: tools/confirm_round.sh c01 r5   -> confirms /tmp/mut_c01_out/<k>/ as seeded/C01-r5-<k>, prints one summary line each
p=$1; r=$2; P=$(echo $p | tr a-z A-Z)
cd "$(dirname "$0")/.."
for d in /tmp/mut_${p}_out/*/; do
  k=$(basename $d)
  [ -f $d/patch.diff ] && [ -f $d/demo.py ] || { echo "$P-$r-$k: incomplete"; continue; }
  needs=$(tr '\n' ' ' < $d/notes.txt 2>/dev/null | cut -c1-600)
  /venv/bin/python tools/seed_confirm.py $P-$r-$k $P $d/patch.diff $d/demo.py "$needs" > /tmp/confirm_$P-$r-$k.log 2>&1
  /venv/bin/python - <<PY
import json,re
t=open('/tmp/confirm_$P-$r-$k.log').read()
try:
    i=t.index('{'); m=json.loads(t[i:t.rindex('}')+1])
    c=m['check_results']['$P']; rep=' '.join(c['report'])
    kind='MISSED' if c['exit']==0 else ('CRASH' if c['exit']==2 else ('nfif' if 'no-failing-input-found' in rep else 'caught'))
    print('$P-$r-$k', 'kept' if m['kept'] else 'NOTKEPT', kind, m['confirmed'])
except Exception as e:
    print('$P-$r-$k', 'confirm-error', e, t[-300:])
PY
done
