#!/usr/bin/env python3
"""Regenerate MANIFEST.json from the per-property modules that exist (harness/props/cXX.py with a
MANIFEST dict) — keeps the manifest valid while machinery is being added."""
import importlib
import json
import sys
from pathlib import Path

HERE = Path(__file__).resolve().parent.parent
sys.path.insert(0, str(HERE))

props = [json.loads(l) for l in (HERE / 'properties.jsonl').read_text().splitlines() if l.strip()]
accepted = set((HERE / 'tools' / 'accepted.txt').read_text().split())
checks, na = [], []
for p in props:
    pid = p['id']
    f = HERE / 'harness' / 'props' / f'{pid.lower()}.py'
    info = None
    if f.exists():
        src = f.read_text()
        ns = {}
        # MANIFEST dict is a literal at module level
        import ast
        for node in ast.parse(src).body:
            if isinstance(node, ast.Assign) and getattr(node.targets[0], 'id', None) == 'MANIFEST':
                info = ast.literal_eval(node.value)
    if info is None or pid not in accepted:
        na.append({'property_id': pid, 'reason': 'machinery for this property is not built yet in this round '
                   '(planned in DESIGN.md section 4; no claim is made)'})
        continue
    checks.append({
        'property_id': pid,
        'quick_cmd': f'./check {pid} --tier quick',
        'thorough_cmd': f'./check {pid} --tier thorough',
        'evidence_file': f'evidence/{pid}.json',
        'replay_cmd_template': f'./check {pid} --replay {{path}}',
        'engine': 'lean-model+tie',
        'level_claimed': {'category': 'proof', 'text': info['text'], 'design_ref': f'DESIGN.md section 4, {pid}'},
        'level_note': info['note'],
        'technique': info['technique'],
    })
man = {
    'version': 1,
    'setup_cmd': './setup.sh',
    'hooks': {'guard': 'ATOMMAN_VERIF', 'enable': 'no source hooks are needed: checks copy /repo/atomman (working tree) to a '
              'scratch directory, compile its .pyx files there and import it in-process with ATOMMAN_VERIF=1 set',
              'baseline_off_cmd': 'cd /repo && /venv/bin/python -m pytest -ra -q -p no:cacheprovider --timeout=900 '
              '--continue-on-collection-errors', 'source_commits': [], 'add_only': True},
    'engines': [{'name': 'lean-model+tie', 'path': 'check',
                 'serves_properties': [c['property_id'] for c in checks],
                 'kind_free_text': 'Lean 4 model + theorems (lake build + #print axioms audit); tie to the source by a '
                 'translator (regenerated Lean definitions) and/or a line-protocol correspondence run against atomman '
                 'rebuilt from /repo; failing-input search by an exact-rational clause oracle'}],
    'checks': checks,
    'not_applicable': na,
    'notes': 'Exit codes: 0 held, 1 VIOLATION line(s), 2 infrastructure error/timeout. See DESIGN.md.',
}
(HERE / 'MANIFEST.json').write_text(json.dumps(man, indent=1) + '\n')
print(f'{len(checks)} checks, {len(na)} not_applicable')
